//go:build verif

// Package lhlib holds the stateless entry points into LuaHelper (parser, annotation parser) shared by
// the executor child and the in-process native fuzz targets. It needs the verif build tag (hooks).
package lhlib

import (
	"fmt"
	"strings"

	"luahelper-lsp/langserver/check/annotation/annotateast"
	"luahelper-lsp/langserver/check/annotation/annotateparser"
	"luahelper-lsp/langserver/check/compiler/lexer"
	"luahelper-lsp/langserver/check/compiler/parser"

	"verif/proto"
)

// dumpType renders an annotation type as a canonical S-expression (singleton unions flattened,
// nested unions merged), the same normal form luagen.AType.Norm produces.
func dumpType(t annotateast.Type) string {
	switch x := t.(type) {
	case nil:
		return "<nil>"
	case *annotateast.NormalType:
		return x.StrName
	case *annotateast.MultiType:
		var ps []string
		var flat func(tt annotateast.Type)
		flat = func(tt annotateast.Type) {
			if m, ok := tt.(*annotateast.MultiType); ok {
				for _, e := range m.TypeList {
					flat(e)
				}
				return
			}
			ps = append(ps, dumpType(tt))
		}
		flat(x)
		if len(ps) == 1 {
			return ps[0]
		}
		return "(| " + strings.Join(ps, " ") + ")"
	case *annotateast.ArrayType:
		return "([] " + dumpType(x.ItemType) + ")"
	case *annotateast.TableType:
		if x.EmptyFlag {
			return "table"
		}
		return "(table " + dumpType(x.KeyType) + " " + dumpType(x.ValueType) + ")"
	case *annotateast.FuncType:
		var ps []string
		for i, n := range x.ParamNameList {
			o := ""
			if i < len(x.ParamOptionList) && x.ParamOptionList[i] {
				o = "?"
			}
			pt := "<none>"
			if i < len(x.ParamTypeList) {
				pt = dumpType(x.ParamTypeList[i])
			}
			ps = append(ps, n+o+":"+pt)
		}
		var rs []string
		for _, r := range x.ReturnTypeList {
			rs = append(rs, dumpType(r))
		}
		return "(fun (" + strings.Join(ps, " ") + ") (" + strings.Join(rs, " ") + "))"
	case *annotateast.ConstType:
		if x.QuotesFlag {
			return "\"" + x.Name + "\""
		}
		return "const:" + x.Name
	case *annotateast.NotValidType:
		return "<notvalid>"
	}
	return fmt.Sprintf("<%T>", t)
}

func dumpState(s annotateast.AnnotateState) (dump string, types []annotateast.Type) {
	switch x := s.(type) {
	case *annotateast.AnnotateTypeState:
		var ps []string
		for _, t := range x.ListType {
			ps = append(ps, dumpType(t))
			types = append(types, t)
		}
		return "(type " + strings.Join(ps, " ") + ")", types
	case *annotateast.AnnotateClassState:
		return "(class " + x.Name + " [" + strings.Join(x.ParentNameList, " ") + "])", nil
	case *annotateast.AnnotateFieldState:
		vis := [...]string{"public", "protected", "private"}
		v := fmt.Sprint(int(x.FieldScopeType))
		if int(x.FieldScopeType) < len(vis) {
			v = vis[x.FieldScopeType]
		}
		return "(field " + v + " " + x.Name + " " + dumpType(x.FiledType) + ")", []annotateast.Type{x.FiledType}
	case *annotateast.AnnotateParamState:
		o := ""
		if x.IsOptional {
			o = "?"
		}
		return "(param " + x.Name + o + " " + dumpType(x.ParamType) + ")", []annotateast.Type{x.ParamType}
	case *annotateast.AnnotateReturnState:
		var ps []string
		for _, t := range x.ReturnTypeList {
			ps = append(ps, dumpType(t))
			types = append(types, t)
		}
		return "(return " + strings.Join(ps, " ") + ")", types
	case *annotateast.AnnotateAliasState:
		return "(alias " + x.Name + " " + dumpType(x.AliasType) + ")", []annotateast.Type{x.AliasType}
	case *annotateast.AnnotateGenericState:
		return "(generic [" + strings.Join(x.NameList, " ") + "] [" + strings.Join(x.ParentNameList, " ") + "])", nil
	case *annotateast.AnnotateOverloadState:
		if x.OverFunType == nil {
			return "(overload <nil>)", nil
		}
		return "(overload " + dumpType(x.OverFunType) + ")", []annotateast.Type{x.OverFunType}
	case *annotateast.AnnotateVarargState:
		return "(vararg " + dumpType(x.VarargType) + ")", []annotateast.Type{x.VarargType}
	case *annotateast.AnnotateEnumState:
		return "(enum)", nil
	case *annotateast.AnnotateEnumEndState:
		return "(enum-end)", nil
	case *annotateast.AnnotateNotValidState:
		return "(notvalid)", nil
	}
	return fmt.Sprintf("(%T)", s), nil
}

// RunAnnot parses each line on its own. A line is given as it appears after the leading "--" of the
// comment, e.g. "-@type number | string @note".
func RunAnnot(req *proto.Request) (resp proto.Response) {
	for i, ln := range req.Lines {
		ci := &lexer.CommentInfo{ShortFlag: true, HeadFlag: true}
		ci.LineVec = append(ci.LineVec, lexer.CommentLine{Str: ln, Line: i + 1, Col: 2})
		frag, errs := annotateparser.ParseCommentFragment(ci)
		al := proto.AnnotLine{}
		if len(errs) > 0 {
			al.Err = errs[0].ErrStr + " | " + errs[0].ShowStr
		} else if len(frag.Stats) == 1 {
			al.OK = true
			d, types := dumpState(frag.Stats[0])
			al.Dump = d
			for _, t := range types {
				al.Types = append(al.Types, annotateast.TypeConvertStr(t))
			}
		} else {
			al.Err = fmt.Sprintf("no statement recognised (%d)", len(frag.Stats))
		}
		resp.Annot = append(resp.Annot, al)
	}
	resp.OK = true
	return
}

// RunParse returns the error list of the Lua parser for a text (the list that becomes the type-1
// diagnostics) and the internal faults its recover() swallowed (verif hook).
func RunParse(req *proto.Request) (resp proto.Response) {
	p := parser.CreateParser(req.Text, "verif.lua")
	_, _, errList := p.BeginAnalyze()
	for _, e := range errList {
		resp.ParseErrs = append(resp.ParseErrs, proto.ParseErr{
			SL: e.Loc.StartLine, SC: e.Loc.StartColumn, EL: e.Loc.EndLine, EC: e.Loc.EndColumn, Msg: e.ErrStr})
	}
	resp.Recovered = parser.VerifTakeRecovered()
	resp.OK = true
	return
}
