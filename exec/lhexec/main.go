// lhexec is the executor child: the only program of the verification framework that links
// LuaHelper. It is built with `-tags verif` from /repo's current working tree. It reads one JSON
// request per line on stdin and answers one JSON line on stdout (see package proto).
package main

import (
	"bufio"
	"bytes"
	"encoding/json"
	"fmt"
	"os"
	"path/filepath"
	"regexp"
	"runtime"
	"runtime/debug"
	"strconv"
	"strings"
	"sync"
	"time"

	"github.com/yinfei8/jrpc2/channel"

	"luahelper-lsp/langserver"
	"luahelper-lsp/langserver/check/common"
	"luahelper-lsp/langserver/check/compiler/parser"
	"luahelper-lsp/langserver/log"

	"verif/exec/lhlib"
	"verif/proto"
)

var (
	scratchBase string
	sessionNo   int
)

func main() {
	maxStack := 128 << 20
	if v := os.Getenv("LHEXEC_MAXSTACK_MB"); v != "" {
		if n, err := strconv.Atoi(v); err == nil && n > 0 {
			maxStack = n << 20
		}
	}
	debug.SetMaxStack(maxStack)
	log.InitLog(false)

	base := "/dev/shm"
	if st, err := os.Stat(base); err != nil || !st.IsDir() {
		base = os.TempDir()
	}
	if v := os.Getenv("LHEXEC_SCRATCH"); v != "" {
		base = v
	}
	scratchBase = filepath.Join(base, fmt.Sprintf("lhx-%d", os.Getpid()))
	defer os.RemoveAll(scratchBase)

	in := bufio.NewReaderSize(os.Stdin, 1<<20)
	out := bufio.NewWriterSize(os.Stdout, 1<<20)
	for {
		line, err := in.ReadBytes('\n')
		if len(line) == 0 && err != nil {
			break
		}
		var req proto.Request
		var resp proto.Response
		if jerr := json.Unmarshal(line, &req); jerr != nil {
			resp.Fatal = "bad request: " + jerr.Error()
		} else {
			switch req.Cmd {
			case "ping":
				resp.OK = true
			case "quit":
				os.RemoveAll(scratchBase)
				return
			case "session":
				resp = runSession(&req)
			case "parse":
				resp = lhlib.RunParse(&req)
			case "annot":
				resp = lhlib.RunAnnot(&req)
			default:
				resp.Fatal = "unknown cmd " + req.Cmd
			}
		}
		b, _ := json.Marshal(&resp)
		out.Write(b)
		out.WriteByte('\n')
		out.Flush()
		if resp.Hung {
			// a handler is stuck; this process cannot be reused
			os.RemoveAll(scratchBase)
			os.Exit(3)
		}
		if err != nil {
			break
		}
	}
	os.RemoveAll(scratchBase)
}

// ---------------------------------------------------------------------------------------------
// strictly ordered JSON-RPC client on a jrpc2 channel

type rpcMsg struct {
	ID     *json.RawMessage `json:"id,omitempty"`
	Method string           `json:"method,omitempty"`
	Params json.RawMessage  `json:"params,omitempty"`
	Result json.RawMessage  `json:"result,omitempty"`
	Error  *struct {
		Code    int    `json:"code"`
		Message string `json:"message"`
	} `json:"error,omitempty"`
}

type queue struct {
	mu     sync.Mutex
	cond   *sync.Cond
	items  []rpcMsg
	closed bool
}

func newQueue() *queue {
	q := &queue{}
	q.cond = sync.NewCond(&q.mu)
	return q
}

func (q *queue) put(m rpcMsg) {
	q.mu.Lock()
	q.items = append(q.items, m)
	q.mu.Unlock()
	q.cond.Broadcast()
}

func (q *queue) close() {
	q.mu.Lock()
	q.closed = true
	q.mu.Unlock()
	q.cond.Broadcast()
}

// get waits until a message is available or the deadline passes.
func (q *queue) get(deadline time.Time) (m rpcMsg, ok bool, timedOut bool) {
	timer := time.AfterFunc(time.Until(deadline), func() { q.cond.Broadcast() })
	defer timer.Stop()
	q.mu.Lock()
	defer q.mu.Unlock()
	for len(q.items) == 0 {
		if q.closed {
			return m, false, false
		}
		if !time.Now().Before(deadline) {
			return m, false, true
		}
		q.cond.Wait()
	}
	m = q.items[0]
	q.items = q.items[1:]
	return m, true, false
}

type client struct {
	ch     channel.Channel
	q      *queue
	nextID int
}

func (c *client) sendRequest(method string, params json.RawMessage) (int, error) {
	c.nextID++
	id := c.nextID
	var b bytes.Buffer
	b.WriteString(`{"jsonrpc":"2.0","id":`)
	b.WriteString(strconv.Itoa(id))
	b.WriteString(`,"method":`)
	mb, _ := json.Marshal(method)
	b.Write(mb)
	if len(params) > 0 {
		b.WriteString(`,"params":`)
		b.Write(params)
	}
	b.WriteString(`}`)
	return id, c.ch.Send(b.Bytes())
}

func (c *client) sendNotify(method string, params json.RawMessage) error {
	var b bytes.Buffer
	b.WriteString(`{"jsonrpc":"2.0","method":`)
	mb, _ := json.Marshal(method)
	b.Write(mb)
	if len(params) > 0 {
		b.WriteString(`,"params":`)
		b.Write(params)
	}
	b.WriteString(`}`)
	return c.ch.Send(b.Bytes())
}

// ---------------------------------------------------------------------------------------------

var typeRe = regexp.MustCompile(`^\[Warn type:(\d+)\], `)

type rawDiag struct {
	Range struct {
		Start struct{ Line, Character int }
		End   struct{ Line, Character int }
	}
	Severity           int
	Message            string
	RelatedInformation []struct {
		Location struct {
			URI   string
			Range struct {
				Start struct{ Line, Character int }
				End   struct{ Line, Character int }
			}
		}
		Message string
	}
}

func runSession(req *proto.Request) (resp proto.Response) {
	sessionNo++
	root := filepath.Join(scratchBase, fmt.Sprintf("w%d", sessionNo))
	os.RemoveAll(root)
	if err := os.MkdirAll(root, 0o755); err != nil {
		resp.Fatal = "mkdir: " + err.Error()
		return
	}
	defer os.RemoveAll(root)
	for _, f := range req.Files {
		p := filepath.Join(root, filepath.FromSlash(f.Path))
		if err := os.MkdirAll(filepath.Dir(p), 0o755); err != nil {
			resp.Fatal = "mkdir: " + err.Error()
			return
		}
		if err := os.WriteFile(p, f.Data, 0o644); err != nil {
			resp.Fatal = "write: " + err.Error()
			return
		}
	}
	if req.MaxProcs > 0 {
		defer runtime.GOMAXPROCS(runtime.GOMAXPROCS(req.MaxProcs))
	}

	rootURI := "file://" + root
	toReal := func(b []byte) []byte {
		return bytes.ReplaceAll(b, []byte(proto.RootURI), []byte(rootURI))
	}
	fromReal := func(b []byte) []byte {
		b = bytes.ReplaceAll(b, []byte(rootURI), []byte(proto.RootURI))
		return bytes.ReplaceAll(b, []byte(root), []byte(proto.RootPath))
	}
	fromRealS := func(s string) string { return string(fromReal([]byte(s))) }

	// reset the global state exactly as main() does
	common.GlobalConfigDefautInit()
	common.GConfig.IntialGlobalVar()
	parser.VerifTakeRecovered()

	srv := langserver.CreateServer()
	cch, sch := channel.Direct()
	srv.Start(sch)
	q := newQueue()
	cl := &client{ch: cch, q: q}
	go func() {
		for {
			b, err := cch.Recv()
			if err != nil {
				q.close()
				return
			}
			var m rpcMsg
			if json.Unmarshal(b, &m) == nil {
				q.put(m)
			}
		}
	}()

	callTimeout := 20 * time.Second
	if req.CallTimeoutMs > 0 {
		callTimeout = time.Duration(req.CallTimeoutMs) * time.Millisecond
	}

	curStep := -2
	pending := map[int]*proto.StepResult{} // request id -> where the reply goes
	var results []*proto.StepResult
	defer func() {
		for _, r := range results {
			resp.Results = append(resp.Results, *r)
		}
	}()
	pendingStart := map[int]time.Time{}

	handlePush := func(m rpcMsg) {
		if m.Method == "textDocument/publishDiagnostics" {
			var p struct {
				URI         string
				Diagnostics []rawDiag
			}
			json.Unmarshal(m.Params, &p)
			push := proto.Push{AfterStep: curStep, Method: m.Method, URI: fromRealS(p.URI)}
			for _, d := range p.Diagnostics {
				pd := proto.Diag{SL: d.Range.Start.Line, SC: d.Range.Start.Character, EL: d.Range.End.Line,
					EC: d.Range.End.Character, Severity: d.Severity, Message: fromRealS(d.Message)}
				if mm := typeRe.FindStringSubmatch(d.Message); mm != nil {
					pd.Type, _ = strconv.Atoi(mm[1])
				}
				for _, r := range d.RelatedInformation {
					pd.Related = append(pd.Related, proto.Related{URI: fromRealS(r.Location.URI),
						SL: r.Location.Range.Start.Line, SC: r.Location.Range.Start.Character,
						EL: r.Location.Range.End.Line, EC: r.Location.Range.End.Character, Message: fromRealS(r.Message)})
				}
				push.Diags = append(push.Diags, pd)
			}
			resp.Pushes = append(resp.Pushes, push)
			return
		}
		resp.Pushes = append(resp.Pushes, proto.Push{AfterStep: curStep, Method: m.Method, Raw: fromReal(m.Params)})
	}

	// dispatch handles one incoming message; returns the id of a response it consumed (or 0).
	dispatch := func(m rpcMsg) int {
		if m.Method != "" {
			if m.ID != nil { // server -> client request: answer null
				cch.Send([]byte(`{"jsonrpc":"2.0","id":` + string(*m.ID) + `,"result":null}`))
			}
			handlePush(m)
			return 0
		}
		if m.ID == nil {
			return 0
		}
		id, err := strconv.Atoi(string(*m.ID))
		if err != nil {
			return 0
		}
		if r, ok := pending[id]; ok {
			if m.Error != nil {
				r.Error = fmt.Sprintf("%d: %s", m.Error.Code, fromRealS(m.Error.Message))
			} else {
				r.Result = fromReal(m.Result)
				if len(r.Result) == 0 {
					r.Result = json.RawMessage("null")
				}
			}
			r.Micros = time.Since(pendingStart[id]).Microseconds()
			r.ReplyAfterStep = curStep
			delete(pending, id)
			delete(pendingStart, id)
		}
		return id
	}

	// waitFor reads messages in arrival order until the response with the given id was seen.
	waitFor := func(id int) (alive bool, timedOut bool) {
		deadline := time.Now().Add(callTimeout)
		for {
			m, ok, to := q.get(deadline)
			if to {
				return true, true
			}
			if !ok {
				return false, false
			}
			if dispatch(m) == id {
				return true, false
			}
		}
	}

	// call sends a request and waits; the result is not recorded in resp.Results (used for barriers)
	rawCall := func(method string, params json.RawMessage) (res json.RawMessage, errStr string, alive, timedOut bool) {
		id, err := cl.sendRequest(method, params)
		if err != nil {
			return nil, "", false, false
		}
		r := &proto.StepResult{Step: curStep}
		pending[id] = r
		pendingStart[id] = time.Now()
		alive, timedOut = waitFor(id)
		delete(pending, id)
		return r.Result, r.Error, alive, timedOut
	}

	finish := func() {
		done := make(chan struct{})
		go func() {
			cch.Close()
			srv.Stop()
			srv.Wait()
			close(done)
		}()
		select {
		case <-done:
		case <-time.After(5 * time.Second):
			resp.Hung = true
		}
		resp.Recovered = append(resp.Recovered, parser.VerifTakeRecovered()...)
	}

	hung := func(step int) {
		resp.Hung = true
		resp.HungStep = step
		resp.OK = true
		resp.Recovered = append(resp.Recovered, parser.VerifTakeRecovered()...)
	}

	// initialize
	initParams := map[string]interface{}{
		"processId":    nil,
		"rootPath":     root,
		"rootUri":      rootURI,
		"capabilities": map[string]interface{}{},
	}
	if len(req.InitOptions) > 0 {
		initParams["initializationOptions"] = json.RawMessage(toReal(req.InitOptions))
	}
	ip, _ := json.Marshal(initParams)
	res, errStr, alive, to := rawCall("initialize", ip)
	if to {
		hung(-2)
		return
	}
	if !alive {
		resp.Fatal = "server closed during initialize"
		return
	}
	if errStr != "" {
		resp.InitError = errStr
		resp.OK = true
		finish()
		return
	}
	resp.InitResult = res
	if !req.NoInitialized {
		curStep = -1
		cl.sendNotify("initialized", json.RawMessage(`{}`))
		_, _, alive, to = rawCall("shutdown", nil)
		if to {
			hung(-1)
			return
		}
		if !alive {
			resp.Fatal = "server closed during initialized"
			return
		}
	}

	for i, st := range req.Steps {
		curStep = i
		switch st.Op {
		case "notify", "post":
			if err := cl.sendNotify(st.Method, toReal(st.Params)); err != nil {
				resp.Fatal = "send: " + err.Error()
				return
			}
			if st.Op == "notify" {
				_, _, alive, to = rawCall("shutdown", nil)
				if to {
					hung(i)
					return
				}
				if !alive {
					resp.Fatal = "server closed"
					return
				}
			}
		case "call", "send":
			id, err := cl.sendRequest(st.Method, toReal(st.Params))
			if err != nil {
				resp.Fatal = "send: " + err.Error()
				return
			}
			sr := &proto.StepResult{Step: i}
			results = append(results, sr)
			pending[id] = sr
			pendingStart[id] = time.Now()
			if st.Op == "call" {
				alive, to = waitFor(id)
				if to {
					sr.Timeout = true
					hung(i)
					return
				}
				if !alive {
					resp.Fatal = "server closed"
					return
				}
			}
		case "drain", "barrier":
			// wait for every outstanding reply, then a barrier
			for len(pending) > 0 {
				var any int
				for k := range pending {
					any = k
					break
				}
				alive, to = waitFor(any)
				if to {
					hung(i)
					return
				}
				if !alive {
					resp.Fatal = "server closed"
					return
				}
			}
			_, _, alive, to = rawCall("shutdown", nil)
			if to {
				hung(i)
				return
			}
			if !alive {
				resp.Fatal = "server closed"
				return
			}
		case "write":
			p := filepath.Join(root, filepath.FromSlash(st.Path))
			os.MkdirAll(filepath.Dir(p), 0o755)
			if err := os.WriteFile(p, st.Data, 0o644); err != nil {
				resp.Fatal = "write: " + err.Error()
				return
			}
		case "remove":
			os.Remove(filepath.Join(root, filepath.FromSlash(st.Path)))
		case "getdoc":
			uri := strings.Replace(st.Path, proto.RootURI, rootURI, 1)
			doc, ok := langserver.VerifGetDocument(uri)
			results = append(results, &proto.StepResult{Step: i, Doc: append([]byte{}, doc...), DocOK: ok})
		default:
			resp.Fatal = "unknown op " + st.Op
			return
		}
	}
	resp.OK = true
	finish()
	return
}
