package main

import "verif/proto"

func runAnnot(req *proto.Request) (resp proto.Response) {
	resp.Fatal = "annot not implemented"
	return
}
