package props

import (
	"encoding/json"
	"fmt"
	"os"
	"path/filepath"
	"sort"
	"strings"
	"sync"
	"testing"

	"pgregory.net/rapid"

	"verif/harness"
	"verif/proto"
	"verif/reflua"
)

// C12 — definition, references, highlight and hover agree with each other.

type C12Case struct {
	WS     Workspace `json:"ws"`
	Origin string    `json:"origin"` // generated | testdata:<dir>
}

func init() { register("C12", checkC12) }

var (
	testdataOnce sync.Once
	testdataWS   []C12Case
)

// loadTestdata reads every directory under the repository's testdata that holds .lua files as one workspace.
func loadTestdata() []C12Case {
	testdataOnce.Do(func() {
		root := "/repo/luahelper-lsp/testdata"
		dirs, _ := os.ReadDir(root)
		for _, d := range dirs {
			if !d.IsDir() {
				continue
			}
			var ws Workspace
			base := filepath.Join(root, d.Name())
			filepath.Walk(base, func(p string, info os.FileInfo, err error) error {
				if err != nil || info.IsDir() || !strings.HasSuffix(p, ".lua") {
					return nil
				}
				b, rerr := os.ReadFile(p)
				if rerr != nil {
					return nil
				}
				rel, _ := filepath.Rel(base, p)
				ws.Files = append(ws.Files, WSFile{Path: filepath.ToSlash(rel), Text: string(b)})
				return nil
			})
			sort.Slice(ws.Files, func(i, j int) bool { return ws.Files[i].Path < ws.Files[j].Path })
			if len(ws.Files) > 0 {
				testdataWS = append(testdataWS, C12Case{WS: ws, Origin: "testdata:" + d.Name()})
			}
		}
	})
	return testdataWS
}

func genC12(t *rapid.T) C12Case {
	td := loadTestdata()
	if len(td) > 0 && rapid.IntRange(0, 19).Draw(t, "useTestdata") == 0 {
		return td[rapid.IntRange(0, len(td)-1).Draw(t, "testdataDir")]
	}
	ws := genC05Opt(t, true).WS
	// a file defining some of the small-pool names as globals (once each), so that `_G.a` written
	// where a local `a` is visible has a definition to resolve to
	if rapid.Bool().Draw(t, "gdefs") {
		var b strings.Builder
		for _, n := range []string{"a", "b", "c", "d", "e"} {
			switch rapid.IntRange(0, 3).Draw(t, "gdef-"+n) {
			case 0:
				b.WriteString(n + " = 1\n")
			case 1:
				b.WriteString("function " + n + " ( p )\n  return p\nend\n")
			case 2:
				b.WriteString(n + " = { }\n")
			}
		}
		if b.Len() > 0 {
			ws.Files = append(ws.Files, WSFile{Path: "gdefs.lua", Text: b.String()})
		}
	}
	// a module that returns a table with members, used through a require handle with `.` and `:` calls
	if rapid.Bool().Draw(t, "moduleMembers") {
		ws.Files = append(ws.Files, WSFile{Path: "modm.lua", Text: "local M = {}\nM.count = 0\nfunction M:bump(n)\n  self.count = self.count + n\n  return self\nend\nfunction M.reset()\n  M.count = 0\nend\nreturn M\n"},
			WSFile{Path: "usem.lua", Text: "local A = require(\"modm\")\nA:bump(2)\nA.reset()\nlocal function usef()\n  A:bump(3)\n  return A.count\nend\nusef()\n"})
	}
	// a table built by nested constructors and read through `a.b.c` chains
	if rapid.Bool().Draw(t, "nestedTable") {
		ws.Files = append(ws.Files, WSFile{Path: "tbls.lua", Text: genNestedTable(t)})
	}
	if gate("c12-spaced-qualifier") {
		// known finding C12-F2: `_G . name` written with blanks; the qualifier is rendered glued instead
		for i := range ws.Files {
			if strings.Contains(ws.Files[i].Text, "_G . ") {
				ws.Files[i].Text = strings.ReplaceAll(ws.Files[i].Text, "_G . ", "_G.")
				excluded()
			}
		}
	}
	return C12Case{WS: ws, Origin: "generated"}
}

type hoverResp struct {
	Contents struct {
		Kind  string `json:"kind"`
		Value string `json:"value"`
	} `json:"contents"`
}

func hoverLabel(raw json.RawMessage) (label string, ok bool) {
	if len(raw) == 0 || string(raw) == "null" {
		return "", false
	}
	var h hoverResp
	if json.Unmarshal(raw, &h) != nil {
		return "", false
	}
	v := h.Contents.Value
	if !strings.HasPrefix(v, "```lua\n") {
		return "", false
	}
	v = v[len("```lua\n"):]
	if i := strings.Index(v, "\n```"); i >= 0 {
		v = v[:i]
	}
	return v, true
}

func parseHighlights(raw json.RawMessage, file string) []Loc {
	if len(raw) == 0 || string(raw) == "null" {
		return nil
	}
	var hs []struct {
		Range struct {
			Start struct{ Line, Character int } `json:"start"`
			End   struct{ Line, Character int } `json:"end"`
		} `json:"range"`
	}
	json.Unmarshal(raw, &hs)
	var out []Loc
	for _, h := range hs {
		out = append(out, Loc{file, h.Range.Start.Line, h.Range.Start.Character, h.Range.End.Line, h.Range.End.Character})
	}
	return out
}

func checkC12(c C12Case, env *Env) *Violation {
	generated := c.Origin == "generated"
	// reference analysis, file by file; invalid files stay in the workspace but are not queried
	type fileInfo struct {
		res  *reflua.Result
		bind *reflua.Binding
	}
	infos := make([]fileInfo, len(c.WS.Files))
	globalDefs := map[string]int{}
	for i, f := range c.WS.Files {
		res, b := reflua.Analyze(f.Text)
		if res.Verdict == reflua.Invalid || b == nil {
			continue
		}
		infos[i] = fileInfo{res, b}
		for n, ds := range b.GlobalDefs {
			globalDefs[n] += len(ds)
		}
		for n, k := range b.GFieldWrites {
			globalDefs[n] += k
		}
	}
	req := &proto.Request{Cmd: "session", Files: c.WS.protoFiles(), InitOptions: harness.J(harness.Flags(1))}
	req.Steps = c.WS.openAll()
	type pq struct {
		file              int
		occ               *reflua.Occ
		def, ref, hl, hov int
	}
	var qs []pq
	for fi, inf := range infos {
		if inf.bind == nil {
			continue
		}
		f := c.WS.Files[fi]
		if !generated && (strings.Contains(f.Text, "\t") || !isASCII(f.Text)) {
			// column defects after tabs / non-ASCII text are C04's known findings
			continue
		}
		occs := append([]*reflua.Occ{}, inf.bind.Occs...)
		for _, gf := range inf.bind.GFields {
			if isLibSpelling(gf.Text) {
				continue // _G.print, _G.type, _G.next ...: library names
			}
			// `_G.name`: a position on the global `name`
			occs = append(occs, &reflua.Occ{Name: gf, Kind: reflua.ORead})
			env.Stats.Class("pos-G-qualified")
		}
		if f.Path == "tbls.lua" {
			// keys of the nested constructors and the member names of the chains reading them
			toks := inf.res.Tokens
			for ti := 1; ti+1 < len(toks); ti++ {
				if toks[ti].Kind != reflua.TName {
					continue
				}
				isKey := (toks[ti-1].Text == "{" || toks[ti-1].Text == ",") && toks[ti+1].Text == "="
				if toks[ti-1].Text == "." || isKey {
					nm := &reflua.Name{Text: toks[ti].Text, Span: reflua.Span{Off: toks[ti].Off, End: toks[ti].End}}
					occs = append(occs, &reflua.Occ{Name: nm, Kind: reflua.ORead})
					if isKey {
						env.Stats.Class("pos-constructor-key")
					} else {
						env.Stats.Class("pos-member-chain")
					}
				}
			}
		}
		if f.Path == "modm.lua" || f.Path == "usem.lua" {
			// member names after `.` / `:` in the module scenario
			toks := inf.res.Tokens
			for ti := 1; ti < len(toks); ti++ {
				if toks[ti].Kind == reflua.TName && (toks[ti-1].Text == "." || toks[ti-1].Text == ":") {
					nm := &reflua.Name{Text: toks[ti].Text, Span: reflua.Span{Off: toks[ti].Off, End: toks[ti].End}}
					occs = append(occs, &reflua.Occ{Name: nm, Kind: reflua.ORead})
					env.Stats.Class("pos-member")
				}
			}
		}
		for _, o := range occs {
			if o.Name.Off == o.Name.End || dcOcc(o) || (o.Decl != nil && o.Decl.Kind == reflua.DSelf) {
				continue
			}
			if (gate("c05-bracket-quote") && kfBracketQuote(f.Text, o.Name.Off)) || (gate("c05-glued-bracket") && kfGluedBracket(f.Text, o.Name.Off)) {
				excludedIn(env)
				continue
			}
			if o.Decl == nil && gate("c06-global-two-files") && globalDefs[o.Name.Text] > 1 {
				excludedIn(env)
				continue
			}
			if gate("c05-same-name-init") && (o.InAssignOfSameName || (!generated && (o.InInitOfSameName || o.InForBoundsOfSameName))) {
				excludedIn(env)
				continue
			}
			l := spanLoc(f.Path, f.Text, o.Name.Span)
			q := pq{file: fi, occ: o}
			q.def = len(req.Steps)
			req.Steps = append(req.Steps, harness.Call("textDocument/definition", harness.TDPos(f.Path, l.SL, l.SC)))
			q.ref = len(req.Steps)
			req.Steps = append(req.Steps, harness.Call("textDocument/references", refParams(f.Path, l.SL, l.SC)))
			q.hl = len(req.Steps)
			req.Steps = append(req.Steps, harness.Call("textDocument/documentHighlight", harness.TDPos(f.Path, l.SL, l.SC)))
			q.hov = len(req.Steps)
			req.Steps = append(req.Steps, harness.Call("textDocument/hover", harness.TDPos(f.Path, l.SL, l.SC)))
			qs = append(qs, q)
		}
	}
	if len(qs) == 0 {
		return nil
	}
	o := env.Exec(req)
	if o.Crash() {
		return violf("crash", "server died: %s\n%s", o.Describe(), showWS(&c.WS))
	}
	if o.Resp.Fatal != "" || o.Resp.InitError != "" {
		return violf("inconclusive", "executor: %s %s", o.Resp.Fatal, o.Resp.InitError)
	}
	locsOf := func(step int) ([]Loc, string) {
		r := harness.ResultOf(o.Resp, step)
		if r == nil {
			return nil, "no result"
		}
		if r.Error != "" {
			return nil, r.Error
		}
		ls, err := parseLocations(r.Result)
		if err != nil {
			return nil, err.Error()
		}
		return ls, ""
	}
	// second round: definition at every reference, references at the definition
	req2 := &proto.Request{Cmd: "session", Files: c.WS.protoFiles(), InitOptions: harness.J(harness.Flags(1))}
	req2.Steps = c.WS.openAll()
	type follow struct {
		q    int
		kind string // "def-of-ref" | "refs-of-def"
		at   Loc
		step int
	}
	var fs []follow
	type first struct {
		D, R, H []Loc
		label   string
		hasHov  bool
	}
	firsts := make([]first, len(qs))
	for qi, q := range qs {
		f := c.WS.Files[q.file]
		at := spanLoc(f.Path, f.Text, q.occ.Name.Span)
		D, e1 := locsOf(q.def)
		R, e2 := locsOf(q.ref)
		if e1 != "" || e2 != "" {
			return violf("error", "request failed at %s: %s %s\n%s", at, e1, e2, showWS(&c.WS))
		}
		hr := harness.ResultOf(o.Resp, q.hl)
		H := parseHighlights(hr.Result, f.Path)
		hv := harness.ResultOf(o.Resp, q.hov)
		label, ok := hoverLabel(hv.Result)
		firsts[qi] = first{D, R, H, label, ok}
		env.Stats.mu.Lock()
		env.Stats.Queries++
		env.Stats.mu.Unlock()
		seen := map[Loc]bool{}
		for _, r := range R {
			if seen[r] || r == at || textAt(&c.WS, r) == "self" {
				// `self` is a don't-care identifier (the server lists the implicit parameter among
				// the references of the table it stands for)
				continue
			}
			seen[r] = true
			if gate("c05-bracket-quote") && kfBracketQuoteAt(&c.WS, r) {
				excludedIn(env)
				continue
			}
			fs = append(fs, follow{qi, "def-of-ref", r, len(req2.Steps)})
			req2.Steps = append(req2.Steps, harness.Call("textDocument/definition", harness.TDPos(r.File, r.SL, r.SC)))
		}
		if len(D) > 0 && gate("c05-bracket-quote") && kfBracketQuoteAt(&c.WS, D[0]) {
			excludedIn(env) // known finding C05-F3 at the declaration's own position
		} else if len(D) > 0 {
			d := D[0]
			fs = append(fs, follow{qi, "refs-of-def", d, len(req2.Steps)})
			req2.Steps = append(req2.Steps, harness.Call("textDocument/references", refParams(d.File, d.SL, d.SC)))
		}
	}
	o2 := env.Exec(req2)
	if o2.Crash() {
		return violf("crash", "server died: %s\n%s", o2.Describe(), showWS(&c.WS))
	}
	if o2.Resp.Fatal != "" || o2.Resp.InitError != "" {
		return violf("inconclusive", "executor: %s %s", o2.Resp.Fatal, o2.Resp.InitError)
	}
	for _, fo := range fs {
		q := qs[fo.q]
		f := c.WS.Files[q.file]
		at := spanLoc(f.Path, f.Text, q.occ.Name.Span)
		r := harness.ResultOf(o2.Resp, fo.step)
		if r == nil || r.Error != "" {
			return violf("error", "follow-up request failed at %s", fo.at)
		}
		ls, _ := parseLocations(r.Result)
		switch fo.kind {
		case "def-of-ref":
			if !sameLocSet(ls, firsts[fo.q].D) {
				return violf("def-of-ref", "%q at %s: definition there is %s, but its reference %s resolves to %s\n%s", q.occ.Name.Text, at,
					fmtLocs(firsts[fo.q].D), fo.at, fmtLocs(ls), showWS(&c.WS))
			}
		case "refs-of-def":
			if !locSet(ls)[at] {
				return violf("not-in-refs-of-def", "%q at %s: its definition is %s, but the references of that declaration %s do not contain the position itself\n%s",
					q.occ.Name.Text, at, fo.at, fmtLocs(ls), showWS(&c.WS))
			}
		}
	}
	nt := false
	for qi, q := range qs {
		f := c.WS.Files[q.file]
		at := spanLoc(f.Path, f.Text, q.occ.Name.Span)
		fr := firsts[qi]
		var sameFile []Loc
		for _, r := range fr.R {
			if r.File == f.Path {
				sameFile = append(sameFile, r)
			}
		}
		if !sameLocSet(fr.H, sameFile) {
			return violf("highlight", "%q at %s: documentHighlight %s differs from the references in the same file %s\n%s", q.occ.Name.Text, at,
				fmtLocs(fr.H), fmtLocs(sameFile), showWS(&c.WS))
		}
		if len(fr.D) > 0 {
			if !fr.hasHov {
				return violf("hover-missing", "%q at %s has a definition %s but hover shows no label\n%s", q.occ.Name.Text, at, fmtLocs(fr.D), showWS(&c.WS))
			}
			if !strings.Contains(fr.label, q.occ.Name.Text) {
				return violf("hover-name", "%q at %s: hover label %q does not name the identifier\n%s", q.occ.Name.Text, at, fr.label, showWS(&c.WS))
			}
			// is the definition a local declaration? decided from the declaring statement found at D
			isLocal, known := declIsLocal(&c.WS, infos[q.file].bind, fr.D[0], func(i int) *reflua.Binding { return infos[i].bind })
			if known {
				if strings.HasPrefix(fr.label, "local") != isLocal {
					return violf("hover-local", "%q at %s: definition %s is local=%v but hover label is %q\n%s", q.occ.Name.Text, at, fr.D[0], isLocal, fr.label, showWS(&c.WS))
				}
			}
		}
		n := 0
		for _, d := range infos[q.file].bind.Decls {
			if d.Name.Text == q.occ.Name.Text {
				n++
			}
		}
		if n >= 2 {
			nt = true
			env.Stats.Class("pos-name-declared-twice")
		}
	}
	env.Stats.Class("origin-" + strings.SplitN(c.Origin, ":", 2)[0])
	if nt && env.Stats.NT(showWS(&c.WS)) {
		env.Stats.Class("nontrivial")
		env.Stats.Sample(3, map[string]interface{}{"origin": c.Origin, "files": len(c.WS.Files), "positions": len(qs), "first_file": c.WS.Files[0]})
	}
	return nil
}

// textAt returns the text a single-line location covers ("" if it cannot be sliced).
func textAt(ws *Workspace, l Loc) string {
	for _, f := range ws.Files {
		if f.Path != l.File {
			continue
		}
		s, ok1 := refmodelOffset(f.Text, l.SL, l.SC)
		e, ok2 := refmodelOffset(f.Text, l.EL, l.EC)
		if ok1 && ok2 && s <= e {
			return f.Text[s:e]
		}
	}
	return ""
}

func kfBracketQuoteAt(ws *Workspace, l Loc) bool {
	for _, f := range ws.Files {
		if f.Path == l.File {
			if off, ok := refmodelOffset(f.Text, l.SL, l.SC); ok {
				return kfBracketQuote(f.Text, off) || (gate("c05-glued-bracket") && kfGluedBracket(f.Text, off))
			}
		}
	}
	return false
}

func isASCII(s string) bool {
	for i := 0; i < len(s); i++ {
		if s[i] >= 0x80 {
			return false
		}
	}
	return true
}

func sameLocSet(a, b []Loc) bool {
	x, y := locSet(a), locSet(b)
	if len(x) != len(y) {
		return false
	}
	for l := range x {
		if !y[l] {
			return false
		}
	}
	return true
}

// declIsLocal looks up the reference occurrence at location d and reports whether it is a local
// declaration (local, parameter, loop variable, local function). known=false if the reference
// front end has no occurrence there (e.g. a field).
func declIsLocal(ws *Workspace, _ *reflua.Binding, d Loc, bindOf func(int) *reflua.Binding) (isLocal bool, known bool) {
	for fi, f := range ws.Files {
		if f.Path != d.File {
			continue
		}
		b := bindOf(fi)
		if b == nil {
			return false, false
		}
		for _, o := range b.Occs {
			if o.Name.Off == o.Name.End {
				continue
			}
			if spanLoc(f.Path, f.Text, o.Name.Span) == d {
				if o.Kind == reflua.ODecl {
					return true, true
				}
				if o.Decl == nil {
					return false, true
				}
				return false, false
			}
		}
	}
	return false, false
}

func TestC12(t *testing.T) { runProp(t, "C12", genC12, checkC12) }

// genNestedTable writes a file that builds one table (local or global) with nested constructors
// (distinct keys per level, depth up to 3) and reads some of its paths through member chains.
func genNestedTable(t *rapid.T) string {
	name := "tcfg"
	var b strings.Builder
	if rapid.Bool().Draw(t, "ntLocal") {
		b.WriteString("local ")
	}
	var paths [][]string
	nk := 0
	var cons func(depth int, path []string) string
	cons = func(depth int, path []string) string {
		n := rapid.IntRange(1, 3).Draw(t, "ntKeys")
		parts := []string{}
		for i := 0; i < n; i++ {
			nk++
			k := fmt.Sprintf("k%d", nk)
			p := append(append([]string{}, path...), k)
			paths = append(paths, p)
			nest := depth < 3 && rapid.IntRange(0, 2).Draw(t, "ntNest") == 0
			if nest && depth >= 2 && gate("c12-deep-constructor-key") {
				// known finding C12-F3: a key of a constructor nested more than two tables deep
				nest = false
				excluded()
			}
			if nest {
				parts = append(parts, k+" = "+cons(depth+1, p))
			} else {
				parts = append(parts, fmt.Sprintf("%s = %d", k, nk))
			}
		}
		sep := ", "
		if rapid.Bool().Draw(t, "ntMultiline") {
			sep = ",\n  "
		}
		return "{ " + strings.Join(parts, sep) + " }"
	}
	b.WriteString(name + " = " + cons(1, nil) + "\n")
	nu := rapid.IntRange(1, 4).Draw(t, "ntUses")
	for i := 0; i < nu; i++ {
		p := paths[rapid.IntRange(0, len(paths)-1).Draw(t, "ntPath")]
		b.WriteString("print(" + name + "." + strings.Join(p, ".") + ")\n")
	}
	return b.String()
}
