package props

import (
	"encoding/json"
	"fmt"
	"regexp"
	"sort"
	"strings"
	"testing"

	"pgregory.net/rapid"

	"verif/harness"
	"verif/proto"
)

// C17 — each configuration switch silences exactly the diagnostics it names.

type C17TypeRule struct {
	File  string `json:"file"`
	Types []int  `json:"types"`
}

type C17Case struct {
	WS        Workspace     `json:"ws"`
	Route     string        `json:"route"` // init | change | json
	Master    bool          `json:"master"`
	On        []int         `json:"on"`                // diagnostic types switched on (1..25)
	IgnoreErr []string      `json:"ignoreErr"`         // files / folders / regexps whose diagnostics are hidden
	IgnoreDir []string      `json:"ignoreDir"`         // files / folders excluded from analysis
	TypeRules []C17TypeRule `json:"typeRules"`         // json route only
	BadKind   string        `json:"badKind,omitempty"` // malformed settings variant
	// Events: file events sent after the configuration is in force; none of them changes a file's
	// content, so the configured view must not change either
	Events []C17Event `json:"events,omitempty"`
}

type C17Event struct {
	Kind string `json:"kind"` // watched-changed | open-save | open-change-close
	File int    `json:"file"`
}

func init() { register("C17", checkC17) }

// c17Fragments: each triggers (at least) the named diagnostic type; `#` is replaced by a suffix that
// makes the names unique per use.
var c17Fragments = []struct {
	typ  int
	text string
}{
	{2, "print(undef#)\n"},
	{3, "print(later#)\nlater# = 1\n"},
	{4, "local unused# = 1\n"},
	{5, "local t5# = { k = 1, k = 2 }\nprint(t5#)\n"},
	{6, "local m6# = require(\"nofile#\")\nprint(m6#)\n"},
	{7, "local a7# = 0\na7# = 1, 2\nprint(a7#)\n"},
	{8, "local c8# = 1, 2\nprint(c8#)\n"},
	{9, "for i9# = 1, 2 do\n  if i9# then goto nolabel# end\nend\n"},
	{10, "local function f10#(p) return p end\nf10#(1, 2)\n"},
	{12, "local q12#\nif not q12# then print(q12#.x) end\n"},
	{13, "local function f13#(d, d) return d end\nprint(f13#)\n"},
	{14, "local y14# = 1\nlocal x14# = y14# == y14#\nprint(x14#)\n"},
	{15, "local y15# = 1\nlocal x15# = y15# or true\nprint(x15#)\n"},
	{16, "local y16# = 1\nlocal x16# = y16# and false\nprint(x16#)\n"},
	{17, "local w17# = 1\nw17# = 2\n"},
	{18, "---@type NoSuchClass#\nlocal v18# = nil\nprint(v18#)\n"},
	{18, "---@class\nlocal k18# = {}\nprint(k18#)\n"},                          // malformed annotation line: syntax kind of type 18
	{18, "---@type fun(\nlocal e18# = 1\nprint(e18#)\n"},                       // malformed annotation line
	{18, "---@class Dup18#\n---@class Dup18#\nlocal d18# = {}\nprint(d18#)\n"}, // duplicate annotation type
	{19, "local y19# = 1\nif y19# then elseif y19# then end\n"},
	{20, "local y20# = 1\ny20# = y20#\nprint(y20#)\n"},
	{21, "local y21# = 1\nlocal x21# = y21# == 1.5\nprint(x21#)\n"},
}

var c17Files = []string{"zqmain.lua", "zqsub/zqmod.lua", "zqlib/zqaux.lua", "zqerr.lua"}

var c17Patterns = []string{"zqmain.lua", "zqsub/", "zqlib", "zqerr.lua", "zqm.*lua", "zq(sub|lib)/", "zqmod", "nomatch/", "nomatch.lua", "zqaux\\.lua$"}

func genC17(t *rapid.T) C17Case {
	var c C17Case
	for fi, name := range c17Files {
		var b strings.Builder
		if name == "zqerr.lua" {
			b.WriteString("local broken = = 1\n") // type 1 only
		} else {
			n := rapid.IntRange(2, 8).Draw(t, "nfrag")
			for k := 0; k < n; k++ {
				fr := rapid.SampledFrom(c17Fragments).Draw(t, "frag")
				b.WriteString(strings.ReplaceAll(fr.text, "#", fmt.Sprintf("_%d_%d", fi, k)))
			}
		}
		c.WS.Files = append(c.WS.Files, WSFile{Path: name, Text: b.String()})
	}
	c.Route = rapid.SampledFrom([]string{"init", "init", "change", "json"}).Draw(t, "route")
	c.Master = rapid.IntRange(0, 9).Draw(t, "master") > 0
	switch rapid.IntRange(0, 5).Draw(t, "flagShape") {
	case 0: // all but one
		off := rapid.IntRange(1, 25).Draw(t, "singleOff")
		for i := 1; i <= 25; i++ {
			if i != off {
				c.On = append(c.On, i)
			}
		}
	case 1: // single on
		c.On = []int{rapid.IntRange(1, 25).Draw(t, "singleOn")}
	case 2: // the five cross-file flags off
		for i := 1; i <= 25; i++ {
			switch i {
			case 2, 3, 10, 11, 12:
			default:
				c.On = append(c.On, i)
			}
		}
	default:
		for i := 1; i <= 25; i++ {
			if rapid.Bool().Draw(t, "flag") {
				c.On = append(c.On, i)
			}
		}
	}
	c.IgnoreErr = rapid.SliceOfNDistinct(rapid.SampledFrom(c17Patterns), 0, 2, func(s string) string { return s }).Draw(t, "ignoreErr")
	if rapid.IntRange(0, 3).Draw(t, "useIgnoreDir") == 0 {
		c.IgnoreDir = rapid.SliceOfNDistinct(rapid.SampledFrom(c17Patterns), 1, 2, func(s string) string { return s }).Draw(t, "ignoreDir")
	}
	if c.Route == "json" && rapid.Bool().Draw(t, "typeRules") {
		// two rules with the same File string: which one wins is unspecified, so the files are distinct
		files := rapid.SliceOfNDistinct(rapid.SampledFrom(c17Patterns), 1, 2, func(s string) string { return s }).Draw(t, "ruleFiles")
		for i := 0; i < len(files); i++ {
			c.TypeRules = append(c.TypeRules, C17TypeRule{File: files[i],
				Types: rapid.SliceOfNDistinct(rapid.IntRange(1, 21), 1, 4, func(i int) int { return i }).Draw(t, "ruleTypes")})
		}
	}
	for k := rapid.IntRange(0, 3).Draw(t, "nevents"); k > 0; k-- {
		c.Events = append(c.Events, C17Event{Kind: rapid.SampledFrom([]string{"watched-changed", "open-save", "open-change-close"}).Draw(t, "eventKind"),
			File: rapid.IntRange(0, len(c17Files)-1).Draw(t, "eventFile")})
	}
	if rapid.IntRange(0, 7).Draw(t, "malformed") == 0 {
		c.BadKind = rapid.SampledFrom([]string{"bad-regexp", "broken-json", "wrong-type", "unknown-key"}).Draw(t, "badKind")
	}
	return c
}

func c17Match(pattern, path string) bool {
	if strings.Contains(path, pattern) {
		return true
	}
	re, err := regexp.Compile(pattern)
	return err == nil && re.MatchString(path)
}

// c17Excluded: an analysis-exclusion pattern that ends in "lua" is a file pattern (substring or
// regular expression over the file's path relative to the root); any other pattern is a folder
// pattern, matched the same way against the relative path of each folder above the file.
func c17Excluded(pattern, rel string) bool {
	if strings.HasSuffix(pattern, "lua") {
		return c17Match(pattern, rel)
	}
	parts := strings.Split(rel, "/")
	dir := ""
	for _, d := range parts[:len(parts)-1] {
		dir += d + "/"
		if c17Match(pattern, dir) {
			return true
		}
	}
	return false
}

func (c *C17Case) initOptions(on []int, master bool, ignoreErr, ignoreDir []string) json.RawMessage {
	m := harness.M{"client": "vsc", "AllEnable": master}
	for _, t := range on {
		m[harness.FlagNames[t]] = true
	}
	if len(ignoreErr) > 0 {
		m["IgnoreFileOrDirError"] = ignoreErr
	}
	if len(ignoreDir) > 0 {
		m["IgnoreFileOrDir"] = ignoreDir
	}
	return harness.J(m)
}

func allTypes() []int {
	var a []int
	for i := 1; i <= 25; i++ {
		a = append(a, i)
	}
	return a
}

func c17JSON(on []int, master bool, ignoreErr, ignoreDir []string, rules []C17TypeRule) []byte {
	onSet := map[int]bool{}
	for _, t := range on {
		onSet[t] = true
	}
	ignoreTypes := []int{26, 27, 28, 29}
	for i := 1; i <= 25; i++ {
		if !onSet[i] {
			ignoreTypes = append(ignoreTypes, i)
		}
	}
	show := 0
	if master {
		show = 1
	}
	cfg := map[string]interface{}{"BaseDir": "./", "ShowWarnFlag": show, "IgnoreErrorTypes": ignoreTypes}
	if len(ignoreErr) > 0 {
		cfg["IgnoreFileErr"] = ignoreErr
	}
	if len(ignoreDir) > 0 {
		cfg["IgnoreFileOrFloder"] = ignoreDir
	}
	if len(rules) > 0 {
		var rs []map[string]interface{}
		for _, r := range rules {
			rs = append(rs, map[string]interface{}{"File": r.File, "Types": r.Types})
		}
		cfg["IgnoreFileErrTypes"] = rs
	}
	b, _ := json.Marshal(cfg)
	return b
}

func (c *C17Case) run(env *Env, on []int, master bool, ignoreErr, ignoreDir []string, rules []C17TypeRule, bad string) (diagSet, string, *Violation) {
	req := &proto.Request{Cmd: "session", Files: c.WS.protoFiles()}
	if bad == "bad-regexp" {
		ignoreErr = append(append([]string{}, ignoreErr...), "zq[", "(?P<zq")
	}
	switch c.Route {
	case "init":
		req.InitOptions = c.initOptions(on, master, ignoreErr, ignoreDir)
		if bad == "wrong-type" {
			req.InitOptions = harness.J(harness.M{"client": "vsc", "AllEnable": "yes", "CheckSyntax": 1, "IgnoreFileOrDirError": "zqmain.lua"})
		}
		if bad == "unknown-key" {
			var m map[string]interface{}
			json.Unmarshal(req.InitOptions, &m)
			m["NoSuchSetting"] = []int{1, 2}
			req.InitOptions = harness.J(m)
		}
	case "change":
		req.InitOptions = c.initOptions(allTypes(), true, nil, nil)
		warn := harness.M{"AllEnable": master}
		for _, t := range on {
			warn[harness.FlagNames[t]] = true
		}
		base := harness.M{"ReferenceMaxNum": 3000, "ReferenceIncudeDefine": true}
		if len(ignoreErr) > 0 {
			base["IgnoreFileOrDirError"] = ignoreErr
		}
		if len(ignoreDir) > 0 {
			base["IgnoreFileOrDir"] = ignoreDir
		}
		settings := harness.M{"settings": harness.M{"luahelper": harness.M{"base": base, "Warn": warn}}}
		if bad == "unknown-key" {
			settings["settings"].(harness.M)["luahelper"].(harness.M)["NoSuchSection"] = harness.M{"x": 1}
		}
		st := proto.Step{Op: "notify", Method: "workspace/didChangeConfiguration", Params: harness.J(settings)}
		// the server deliberately ignores the first notification (sent by clients right after start-up)
		req.Steps = append(req.Steps, st, st)
	case "json":
		req.InitOptions = c.initOptions(allTypes(), true, nil, nil)
		data := c17JSON(on, master, ignoreErr, ignoreDir, rules)
		switch bad {
		case "broken-json":
			data = data[:len(data)/2]
		case "wrong-type":
			data = []byte(`{"BaseDir":"./","ShowWarnFlag":"1","IgnoreErrorTypes":"4"}`)
		case "unknown-key":
			data = append([]byte(`{"NoSuchKey":[1,2],`), data[1:]...)
		}
		req.Files = append(req.Files, proto.File{Path: "luahelper.json", Data: data})
	}
	for _, ev := range c.Events {
		f := c.WS.Files[ev.File]
		switch ev.Kind {
		case "watched-changed":
			req.Steps = append(req.Steps, harness.Watched([2]interface{}{f.Path, 2}))
		case "open-save":
			req.Steps = append(req.Steps, harness.DidOpen(f.Path, f.Text), harness.DidSave(f.Path, f.Text))
		case "open-change-close":
			req.Steps = append(req.Steps, harness.DidOpen(f.Path, f.Text), harness.DidChangeFull(f.Path, 2, f.Text), harness.DidClose(f.Path))
		}
	}
	o := env.Exec(req)
	if o.Crash() {
		return nil, "", violf("crash", "the server died under this configuration: %s\n%s", o.Describe(), c17Show(c))
	}
	if o.Resp.Fatal != "" {
		return nil, "", violf("inconclusive", "executor: %s", o.Resp.Fatal)
	}
	if o.Resp.InitError != "" {
		return nil, o.Resp.InitError, nil
	}
	return viewOf(o.Resp.Pushes, 1<<30), "", nil
}

func checkC17(c C17Case, env *Env) *Violation {
	if c.Route != "json" && (c.BadKind == "broken-json") {
		c.BadKind = ""
	}
	if c.Route != "json" {
		c.TypeRules = nil
	}
	all, initErr, v := c.run(env, allTypes(), true, nil, nil, nil, "")
	if v != nil {
		return v
	}
	if initErr != "" {
		return violf("inconclusive", "the all-enabled run failed to initialize: %s", initErr)
	}
	got, initErr, v := c.run(env, c.On, c.Master, c.IgnoreErr, c.IgnoreDir, c.TypeRules, c.BadKind)
	if v != nil {
		return v
	}
	if c.BadKind != "" {
		// malformed settings: rejected (initialize error) or ignored; the server must stay alive — which
		// run() has checked. A wrongly typed value that the decoder rejects is a clean rejection.
		env.Stats.Class("malformed-" + c.BadKind)
		if initErr != "" {
			env.Stats.Class("malformed-rejected")
			return nil
		}
		if c.BadKind != "bad-regexp" && c.BadKind != "unknown-key" {
			return nil // what a half-read configuration means is unspecified
		}
	} else if initErr != "" {
		return violf("init-error", "initialize failed for a well-formed configuration: %s\n%s", initErr, c17Show(&c))
	}
	onSet := map[int]bool{}
	for _, t := range c.On {
		onSet[t] = true
	}
	want := diagSet{}
	removed, kept := 0, 0
	for k, n := range all {
		parts := strings.SplitN(k, "|", 3)
		file := parts[0]
		var typ int
		fmt.Sscan(parts[1], &typ)
		drop := !c.Master || !onSet[typ]
		for _, p := range c.IgnoreErr {
			if c17Match(p, "ROOT/"+file) {
				drop = true
			}
		}
		excluded := false
		for _, p := range c.IgnoreDir {
			if c17Excluded(p, file) {
				drop, excluded = true, true
			}
		}
		for _, r := range c.TypeRules {
			if c17Match(r.File, "ROOT/"+file) {
				for _, t := range r.Types {
					if t == typ {
						drop = true
					}
				}
			}
		}
		_ = excluded
		if drop {
			removed++
			continue
		}
		kept++
		want[k] = n
	}
	if d := diffSets(got, want); d != "" {
		return violf("filter", "the diagnostics under this configuration are not the all-enabled diagnostics minus what the configuration excludes:\n%s\n%s", d, c17Show(&c))
	}
	env.Stats.Class("route-" + c.Route)
	if len(c.Events) > 0 {
		env.Stats.Class("with-file-events")
	}
	if len(c.IgnoreDir) > 0 {
		env.Stats.Class("with-analysis-exclusion")
	}
	if len(c.TypeRules) > 0 {
		env.Stats.Class("with-per-file-type-rules")
	}
	if removed > 0 && kept > 0 && c.BadKind == "" && env.Stats.NT(fmt.Sprint(c)) {
		env.Stats.Class("nontrivial")
		env.Stats.Sample(3, map[string]interface{}{"route": c.Route, "master": c.Master, "on": c.On, "ignoreErr": c.IgnoreErr, "ignoreDir": c.IgnoreDir,
			"typeRules": c.TypeRules, "removed": removed, "kept": kept, "zqmain.lua": c.WS.Files[0].Text})
	}
	return nil
}

func c17Show(c *C17Case) string {
	on := append([]int{}, c.On...)
	sort.Ints(on)
	return fmt.Sprintf("route=%s master=%v on=%v ignoreErr=%q ignoreDir=%q typeRules=%v bad=%q events=%v\n%s", c.Route, c.Master, on, c.IgnoreErr, c.IgnoreDir, c.TypeRules, c.BadKind, c.Events, showWS(&c.WS))
}

func TestC17(t *testing.T) { runProp(t, "C17", genC17, checkC17) }
