package props

import (
	"encoding/json"
	"fmt"
	"sort"
	"strings"

	"pgregory.net/rapid"

	"verif/harness"
	"verif/luagen"
	"verif/proto"
	"verif/reflua"
	"verif/refmodel"
)

// Shared machinery of the binder-based properties (C05, C06, C07, C11, C12, C14).

type WSFile struct {
	Path string `json:"path"`
	Text string `json:"text"`
}

type Workspace struct {
	Files []WSFile `json:"files"`
	// Late: when k > 0, file k-1 does not exist when the server starts; it is created on disk and
	// announced with a Created watched-file event before the documents are opened
	Late int `json:"late,omitempty"`
}

func (w *Workspace) protoFiles() []proto.File {
	var fs []proto.File
	for i, f := range w.Files {
		if w.Late == i+1 && len(w.Files) > 1 {
			continue
		}
		fs = append(fs, proto.File{Path: f.Path, Data: []byte(f.Text)})
	}
	return fs
}

var wsFileNames = []string{"main.lua", "util.lua", "sub/mod.lua"}

var builtinNames = []string{"print", "pairs", "ipairs", "tostring", "type"}

type semGenOpts struct {
	MaxFiles            int
	Naming              luagen.Naming
	Methods             bool
	Self                bool
	NoSameName          bool
	GlobalsRW           bool // files may assign the shared globals
	MaxStats            int
	NoFuncInTargetIndex bool
	NoFuncInForBounds   bool
	GQualified          bool
	SameNameBareInit    bool
	SameNameOutsideInit bool // for bounds and assignment right-hand sides may read the declared / assigned name
}

// genWorkspace generates 1..MaxFiles files (simple layout: one statement per line, single spaces,
// LF) over a shared pool of global names.
func genWorkspace(t *rapid.T, o semGenOpts) Workspace {
	n := rapid.IntRange(1, o.MaxFiles).Draw(t, "nfiles")
	var ws Workspace
	for i := 0; i < n; i++ {
		cfg := luagen.DefaultConfig()
		cfg.Naming = o.Naming
		cfg.Methods = o.Methods
		cfg.Self = o.Self
		cfg.Goto = true
		cfg.NoSameNameInit = o.NoSameName
		cfg.NoFuncInTargetIndex = o.NoFuncInTargetIndex
		cfg.NoFuncInForBounds = o.NoFuncInForBounds
		cfg.GQualified = o.GQualified
		cfg.SameNameBareInit = o.SameNameBareInit
		cfg.SameNameForOK = o.SameNameOutsideInit
		cfg.SameNameAssignOK = o.SameNameOutsideInit
		cfg.AritySlack = true
		cfg.LibNames = true
		cfg.Globals = []string{"G1", "G2", "gfun", "Gtab"}
		cfg.Builtins = builtinNames
		cfg.Prefix = fmt.Sprintf("f%d", i)
		if o.MaxStats > 0 {
			cfg.MaxStats = o.MaxStats
		}
		toks := luagen.Program(t, cfg)
		src, _ := luagen.RenderSimple(toks)
		ws.Files = append(ws.Files, WSFile{Path: wsFileNames[i], Text: src})
	}
	if n > 1 && rapid.IntRange(0, 3).Draw(t, "lateFile") == 0 {
		ws.Late = 1 + rapid.IntRange(0, n-1).Draw(t, "lateIdx")
	}
	return ws
}

// analysed is the reference analysis of a workspace.
type analysed struct {
	ws   *Workspace
	res  []*reflua.Result
	bind []*reflua.Binding
	// globalDefs: name -> defining occurrences over all files
	globalDefs map[string][]defSite
}

type defSite struct {
	file int
	def  *reflua.GlobalDef
}

func analyse(ws *Workspace) (*analysed, *Violation) {
	a := &analysed{ws: ws, globalDefs: map[string][]defSite{}}
	for i, f := range ws.Files {
		res, b := reflua.Analyze(f.Text)
		if res.Verdict != reflua.Valid {
			return nil, violf("inconclusive", "generated file %s is not valid Lua for the reference: %v %v", f.Path, res.Err, res.Context)
		}
		a.res = append(a.res, res)
		a.bind = append(a.bind, b)
		names := make([]string, 0, len(b.GlobalDefs))
		for n := range b.GlobalDefs {
			names = append(names, n)
		}
		sort.Strings(names)
		for _, n := range names {
			for _, d := range b.GlobalDefs[n] {
				a.globalDefs[n] = append(a.globalDefs[n], defSite{i, d})
			}
		}
	}
	return a, nil
}

// Loc is a location in workspace terms.
type Loc struct {
	File           string
	SL, SC, EL, EC int
}

func (l Loc) String() string { return fmt.Sprintf("%s:%d:%d-%d:%d", l.File, l.SL, l.SC, l.EL, l.EC) }

func spanLoc(file, text string, sp reflua.Span) Loc {
	sl, sc := refmodel.PosOf(text, sp.Off)
	el, ec := refmodel.PosOf(text, sp.End)
	return Loc{file, sl, sc, el, ec}
}

type lspLocation struct {
	URI   string `json:"uri"`
	Range struct {
		Start struct{ Line, Character int } `json:"start"`
		End   struct{ Line, Character int } `json:"end"`
	} `json:"range"`
}

func parseLocations(raw json.RawMessage) ([]Loc, error) {
	if len(raw) == 0 || string(raw) == "null" {
		return nil, nil
	}
	var ls []lspLocation
	if err := json.Unmarshal(raw, &ls); err != nil {
		// single location?
		var one lspLocation
		if err2 := json.Unmarshal(raw, &one); err2 != nil {
			return nil, err
		}
		ls = []lspLocation{one}
	}
	var out []Loc
	for _, l := range ls {
		out = append(out, Loc{harness.RelOfURI(l.URI), l.Range.Start.Line, l.Range.Start.Character, l.Range.End.Line, l.Range.End.Character})
	}
	return out, nil
}

func locSet(ls []Loc) map[Loc]bool {
	m := map[Loc]bool{}
	for _, l := range ls {
		m[l] = true
	}
	return m
}

func fmtLocs(ls []Loc) string {
	var s []string
	for _, l := range ls {
		s = append(s, l.String())
	}
	sort.Strings(s)
	return "{" + strings.Join(s, ", ") + "}"
}

// dcOcc: an occurrence whose resolution no property speaks about — self, _G, _ENV always; the names of
// the standard library only when the occurrence is not bound to a local (a local called `type` is an
// ordinary variable).
func dcOcc(o *reflua.Occ) bool {
	switch o.Name.Text {
	case "self", "_G", "_ENV", "_VERSION":
		return true
	}
	return o.Decl == nil && dcName(o.Name.Text)
}

// dcName: names whose resolution no property speaks about.
func dcName(n string) bool {
	switch n {
	case "self", "_G", "_ENV", "_VERSION":
		return true
	}
	for _, b := range builtinNames {
		if b == n {
			return true
		}
	}
	return false
}

// openAll returns didOpen steps for every file (a client has the files open when it queries them).
func (w *Workspace) openAll() []proto.Step {
	var st []proto.Step
	if w.Late > 0 && w.Late <= len(w.Files) && len(w.Files) > 1 {
		f := w.Files[w.Late-1]
		st = append(st, proto.Step{Op: "write", Path: f.Path, Data: []byte(f.Text)}, harness.Watched([2]interface{}{f.Path, 1}))
	}
	for _, f := range w.Files {
		st = append(st, harness.DidOpen(f.Path, f.Text))
	}
	return st
}

func showWS(w *Workspace) string {
	var b strings.Builder
	for i, f := range w.Files {
		if w.Late == i+1 {
			fmt.Fprintf(&b, "--- %s (created after the server started)\n%s", f.Path, f.Text)
			continue
		}
		fmt.Fprintf(&b, "--- %s\n%s", f.Path, f.Text)
	}
	return b.String()
}

// kfBracketQuote is the trigger class of known finding C05-F3: on the identifier's line there is,
// to its left, a quote character preceded (anywhere) by '[' and, to its right, a quote character
// followed (anywhere) by ']' — the server's text heuristic then believes the cursor is inside a
// ["..."] subscript.
func kfBracketQuote(text string, off int) bool {
	right := false
	q := false
	for i := off; i < len(text) && text[i] != '\n' && text[i] != '\r'; i++ {
		if text[i] == '"' || text[i] == '\'' {
			q = true
		}
		if q && text[i] == ']' {
			right = true
			break
		}
	}
	if !right {
		return false
	}
	q = false
	for i := off; i >= 0 && text[i] != '\n' && text[i] != '\r'; i-- {
		if text[i] == '"' || text[i] == '\'' {
			q = true
		}
		if q && text[i] == '[' {
			return true
		}
	}
	return false
}

func refmodelOffset(text string, line, ch int) (int, bool) { return refmodel.OffsetOf(text, line, ch) }

// kfGluedBracket is the trigger class of known finding C05-F6: the identifier is directly preceded
// (no white space) by `]` or `)` — e.g. the end of a long comment `--[[c]]name` or `f()g()`. The
// server extracts the expression under the cursor by scanning the text backwards and takes the
// bracketed text for part of the expression.
func kfGluedBracket(text string, off int) bool {
	return off > 0 && (text[off-1] == ']' || text[off-1] == ')')
}
