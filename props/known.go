package props

import (
	"encoding/json"
	"os"
	"sync"
)

// KnownFinding is one entry of /verif/known_findings.json (committed; never written at run time).
type KnownFinding struct {
	Property string `json:"property"`
	ID       string `json:"id"`
	Status   string `json:"status"` // "known" | "fixed"
	What     string `json:"what"`
	Trigger  string `json:"trigger,omitempty"` // the trigger class in words
	Gate     string `json:"gate,omitempty"`    // generator gate that excludes the trigger class while listed
	Witness  string `json:"witness,omitempty"` // replay file (relative to /verif)
	Commit   string `json:"commit,omitempty"`  // for fixed entries
	Line     string `json:"line,omitempty"`    // "fixed: property=<id> <commit> <what failed>"
}

type KnownFile struct {
	Findings []KnownFinding `json:"findings"`
}

var (
	knownOnce  sync.Once
	knownGates map[string]bool
)

func KnownPath() string {
	if v := os.Getenv("VERIF_KNOWN"); v != "" {
		return v
	}
	return "/verif/known_findings.json"
}

func LoadKnown() KnownFile {
	var kf KnownFile
	b, err := os.ReadFile(KnownPath())
	if err == nil {
		json.Unmarshal(b, &kf)
	}
	return kf
}

// gate reports whether the generator gate `name` is closed, i.e. the trigger class of a listed
// (not fixed) known finding must be excluded by construction. VERIF_UNGATED=1 opens all gates.
func gate(name string) bool {
	knownOnce.Do(func() {
		knownGates = map[string]bool{}
		if os.Getenv("VERIF_UNGATED") == "1" {
			return
		}
		for _, f := range LoadKnown().Findings {
			if f.Status == "known" && f.Gate != "" {
				knownGates[f.Gate] = true
			}
		}
	})
	return knownGates[name]
}

// openAllGates is used by replays: a saved case is always decided on its full domain.
func openAllGates() {
	knownOnce.Do(func() {})
	knownGates = map[string]bool{}
}

// excluded counts one draw redirected by a gate.
func excluded() {
	stats.mu.Lock()
	stats.Excluded++
	stats.mu.Unlock()
}

// excludedIn counts one query skipped by a gate, in the statistics of env.
func excludedIn(env *Env) {
	env.Stats.mu.Lock()
	env.Stats.Excluded++
	env.Stats.mu.Unlock()
}
