package props

import (
	"fmt"
	"os"
	"testing"

	"verif/luagen"
	"verif/proto"
	"verif/reflua"
)

// TestC03Probe is a diagnostic aid (VERIF_PROBE=1): lists the negative templates on which the
// parser and the reference disagree.
func TestC03Probe(t *testing.T) {
	if os.Getenv("VERIF_PROBE") == "" {
		t.Skip()
	}
	env := &Env{Stats: stats}
	for _, tpl := range luagen.NegTemplates {
		for _, text := range []string{tpl + "\n", "local a, b, x, f\n" + tpl + "\nlocal z = 1\n"} {
			res, _ := reflua.Analyze(text)
			o := env.Exec(&proto.Request{Cmd: "parse", Text: []byte(text)})
			if o.Crash() {
				fmt.Printf("CRASH %q: %s\n", text, o.Describe()[:300])
				continue
			}
			n := len(o.Resp.ParseErrs)
			if (res.Verdict == reflua.Invalid) != (n > 0) && res.Verdict != reflua.ContextOnly {
				fmt.Printf("DISAGREE ref=%v lh_errs=%d  %q   (%v)\n", res.Verdict, n, text, res.Err)
			}
		}
	}
}
