package props

import (
	"encoding/json"
	"fmt"
	"sort"
	"strings"
	"testing"

	"pgregory.net/rapid"

	"verif/harness"
	"verif/proto"
)

// C18 — module paths resolve as documented, consistently across features.

type C18Event struct {
	Kind string `json:"kind"` // create | delete
	File string `json:"file"`
}

type C18Case struct {
	Present []string `json:"present"` // files of the universe that exist initially
	Mods    []string `json:"mods"`    // require("<mod>") strings used in main.lua
	Dofiles []string `json:"dofiles"` // dofile("<path>") strings
	Sep     string   `json:"sep"`     // RequirePathSeparator setting
	// AfterString[i]: the i-th require is written after another string literal on its line
	// (local s, m = "tag", require("mod"))
	AfterString []bool     `json:"afterString,omitempty"`
	// Again[i]: the i-th module is required a second time, inside a function further down the file
	Again []bool `json:"again,omitempty"`
	Events      []C18Event `json:"events"`
}

func init() { register("C18", checkC18) }

var c18Universe = []string{"alpha.lua", "beta.lua", "mods/alpha.lua", "mods/gamma.lua", "pkg/init.lua", "deep/x/yy.lua", "deep/x/init.lua", "lib/delta.lua",
	"lib/gamma/gamma.lua", "third/gamma.lua", "lib/delta/delta.lua", "epsilon.so"}

// c18Users: the files that hold the require / dofile calls (the same calls in each): one at the root, one in a folder
var c18Users = []string{"main.lua", "lib/user.lua"}

var c18Mods = []string{"alpha", "beta", "gamma", "mods.alpha", "mods.gamma", "mods/gamma", "pkg", "deep.x.yy", "x.yy", "yy", "deep.x", "delta", "lib.delta",
	"nothere", "mods.nothere", "deep.nothere.yy", "epsilon", "lib/delta", "deep/x/yy"}

var c18Dofiles = []string{"mods/gamma.lua", "alpha.lua", "nothere.lua", "lib/delta.lua", "x/yy.lua"}

func genC18(t *rapid.T) C18Case {
	var c C18Case
	for _, f := range c18Universe {
		if rapid.Bool().Draw(t, "present") {
			c.Present = append(c.Present, f)
		}
	}
	c.Mods = rapid.SliceOfNDistinct(rapid.SampledFrom(c18Mods), 1, 6, func(s string) string { return s }).Draw(t, "mods")
	for range c.Mods {
		c.AfterString = append(c.AfterString, rapid.IntRange(0, 3).Draw(t, "afterString") == 0)
		c.Again = append(c.Again, rapid.IntRange(0, 2).Draw(t, "again") == 0)
	}
	c.Dofiles = rapid.SliceOfNDistinct(rapid.SampledFrom(c18Dofiles), 0, 2, func(s string) string { return s }).Draw(t, "dofiles")
	c.Sep = rapid.SampledFrom([]string{".", ".", "/"}).Draw(t, "sep")
	present := map[string]bool{}
	for _, f := range c.Present {
		present[f] = true
	}
	n := rapid.IntRange(0, 6).Draw(t, "nevents")
	for i := 0; i < n; i++ {
		// only Lua files are watched by a client; native modules exist from the start or not at all
		f := rapid.SampledFrom(c18Universe[:len(c18Universe)-1]).Draw(t, "evFile")
		if present[f] {
			c.Events = append(c.Events, C18Event{"delete", f})
			present[f] = false
		} else {
			c.Events = append(c.Events, C18Event{"create", f})
			present[f] = true
		}
	}
	return c
}

// c18Candidates: the documented mapping. path = module string with '.' replaced by '/'; candidates
// are the workspace files equal to or ending in /path.lua, else /path/init.lua.
func c18Candidates(mod string, suffixed bool, files map[string]bool) (cands []string, so bool) {
	p := mod
	if suffixed {
		p = strings.TrimSuffix(p, ".lua")
	} else {
		p = strings.ReplaceAll(p, ".", "/")
	}
	match := func(target string) []string {
		var out []string
		for f := range files {
			if !strings.HasSuffix(f, ".lua") {
				continue
			}
			if f == target || strings.HasSuffix(f, "/"+target) {
				out = append(out, f)
			}
		}
		sort.Strings(out)
		return out
	}
	if !suffixed && files[p+".so"] {
		so = true
	}
	cands = match(p + ".lua")
	if len(cands) == 0 && !suffixed {
		cands = match(p + "/init.lua")
	}
	return
}

func checkC18(c C18Case, env *Env) *Violation {
	var main strings.Builder
	type ref struct {
		user     int // index into c18Users
		mod      string
		suffixed bool
		line     int
		col      int // a column inside the string
		probeCol int // column of `probe` in the line after a require (-1 for dofile)
	}
	var refs []ref
	line := 0
	for i, m := range c.Mods {
		pre := fmt.Sprintf("local m%d = require(\"", i)
		if i < len(c.AfterString) && c.AfterString[i] {
			pre = fmt.Sprintf("local s%d, m%d = \"tag\", require(\"", i, i)
		}
		use := fmt.Sprintf("m%d.", i)
		fmt.Fprintf(&main, "%s%s\")\n%sprobe()\n", pre, m, use)
		refs = append(refs, ref{0, m, false, line, len(pre) + 1, len(use) + 1})
		line += 2
	}
	for _, d := range c.Dofiles {
		pre := "dofile(\""
		fmt.Fprintf(&main, "%s%s\")\n", pre, d)
		refs = append(refs, ref{0, d, true, line, len(pre) + 1, -1})
		line++
	}
	for i, m := range c.Mods {
		if i < len(c.Again) && c.Again[i] {
			pre := "  return require(\""
			fmt.Fprintf(&main, "local function again%d()\n%s%s\")\nend\n", i, pre, m)
			refs = append(refs, ref{0, m, false, line + 1, len(pre) + 1, -1})
			line += 3
		}
	}
	mainText := main.String()
	// the second requiring file holds the same calls
	for _, rf := range append([]ref{}, refs...) {
		rf.user = 1
		refs = append(refs, rf)
	}
	files := map[string]bool{}
	opts := harness.Flags(1, 6)
	opts["RequirePathSeparator"] = c.Sep
	req := &proto.Request{Cmd: "session", InitOptions: harness.J(opts)}
	for _, u := range c18Users {
		files[u] = true
		req.Files = append(req.Files, proto.File{Path: u, Data: []byte(mainText)})
	}
	content := func(f string) []byte {
		if strings.HasSuffix(f, ".so") {
			return []byte{0x7f, 'E', 'L', 'F'}
		}
		return []byte("local M = {}\nfunction M.probe()\nend\nreturn M\n")
	}
	for _, f := range c.Present {
		files[f] = true
		req.Files = append(req.Files, proto.File{Path: f, Data: content(f)})
	}
	for _, u := range c18Users {
		req.Steps = append(req.Steps, harness.DidOpen(u, mainText))
	}
	type round struct {
		files map[string]bool
		upto  int // diagnostics up to this step
		def   []int
		hov   []int
		probe []int
		desc  string
	}
	var rounds []round
	query := func(desc string) {
		r := round{files: map[string]bool{}, desc: desc}
		for f := range files {
			r.files[f] = true
		}
		for _, rf := range refs {
			u := c18Users[rf.user]
			r.def = append(r.def, len(req.Steps))
			req.Steps = append(req.Steps, harness.Call("textDocument/definition", harness.TDPos(u, rf.line, rf.col)))
			r.hov = append(r.hov, len(req.Steps))
			req.Steps = append(req.Steps, harness.Call("textDocument/hover", harness.TDPos(u, rf.line, rf.col)))
			r.probe = append(r.probe, len(req.Steps))
			if rf.probeCol >= 0 {
				req.Steps = append(req.Steps, harness.Call("textDocument/definition", harness.TDPos(u, rf.line+1, rf.probeCol)))
			} else {
				req.Steps = append(req.Steps, proto.Step{Op: "barrier"})
			}
		}
		r.upto = len(req.Steps) - 1
		rounds = append(rounds, r)
	}
	query("initial tree")
	for _, e := range c.Events {
		if e.Kind == "create" {
			files[e.File] = true
			req.Steps = append(req.Steps, proto.Step{Op: "write", Path: e.File, Data: content(e.File)}, harness.Watched([2]interface{}{e.File, 1}))
		} else {
			delete(files, e.File)
			req.Steps = append(req.Steps, proto.Step{Op: "remove", Path: e.File}, harness.Watched([2]interface{}{e.File, 3}))
		}
		query(e.Kind + " " + e.File)
	}
	o := env.Exec(req)
	if o.Crash() {
		return violf("crash", "server died: %s\n%s", o.Describe(), c18Show(&c, mainText))
	}
	if o.Resp.Fatal != "" || o.Resp.InitError != "" {
		return violf("inconclusive", "executor: %s %s", o.Resp.Fatal, o.Resp.InitError)
	}
	changed := map[string]string{}
	nt := false
	for _, r := range rounds {
		type6s := make([]map[int]bool, len(c18Users))
		for ui, u := range c18Users {
			type6s[ui] = map[int]bool{}
			for _, d := range harness.FoldDiags(o.Resp.Pushes, r.upto)[harness.URI(u)] {
				if d.Type == 6 {
					type6s[ui][d.SL] = true
				}
			}
		}
		for i, rf := range refs {
			type6 := type6s[rf.user]
			cands, so := c18Candidates(rf.mod, rf.suffixed, r.files)
			if so && len(cands) == 0 {
				// a native module: tolerated (no diagnostic); definition / hover unspecified
				if type6[rf.line] {
					return violf("so-flagged", "after %s: require(%q) has a native module file but is reported as not found (type 6)\n%s", r.desc, rf.mod, c18Show(&c, mainText))
				}
				continue
			}
			if so {
				continue // both a .so and a Lua candidate: precedence unspecified
			}
			if c.Sep == "/" && !rf.suffixed && strings.Contains(rf.mod, ".") {
				continue // dotted names under the '/' separator setting: unspecified
			}
			what := "require"
			if rf.suffixed {
				what = "dofile"
			}
			if (len(cands) == 0) != type6[rf.line] {
				return violf("type6", "after %s: %s(%q) has candidates %v but file-not-found diagnostic (type 6) present=%v\n%s", r.desc, what, rf.mod, cands, type6[rf.line], c18Show(&c, mainText))
			}
			dres := harness.ResultOf(o.Resp, r.def[i])
			locs, _ := parseLocations(dres.Result)
			var defFile string
			if len(cands) == 0 {
				if len(locs) != 0 {
					return violf("def-phantom", "after %s: go-to-definition on %s(%q) returns %s although no such file exists\n%s", r.desc, what, rf.mod, fmtLocs(locs), c18Show(&c, mainText))
				}
			} else {
				if len(locs) != 1 {
					return violf("def-missing", "after %s: go-to-definition on %s(%q) returns %s; expected the start of one of %v\n%s", r.desc, what, rf.mod, fmtLocs(locs), cands, c18Show(&c, mainText))
				}
				defFile = locs[0].File
				ok := false
				for _, cd := range cands {
					if cd == defFile {
						ok = true
					}
				}
				if !ok || locs[0].SL != 0 {
					return violf("def-wrong", "after %s: go-to-definition on %s(%q) leads to %s, not to the start of a file the documented mapping allows %v\n%s", r.desc, what, rf.mod, locs[0], cands, c18Show(&c, mainText))
				}
			}
			hres := harness.ResultOf(o.Resp, r.hov[i])
			var h hoverResp
			hoverFile := ""
			if string(hres.Result) != "null" && json.Unmarshal(hres.Result, &h) == nil {
				if k := strings.Index(h.Contents.Value, "lua file : "); k >= 0 {
					hoverFile = strings.TrimSpace(h.Contents.Value[k+len("lua file : "):])
				}
			}
			if (hoverFile != "") != (len(cands) > 0) {
				return violf("hover", "after %s: hover on %s(%q) names the file %q but the candidates are %v\n%s", r.desc, what, rf.mod, hoverFile, cands, c18Show(&c, mainText))
			}
			if hoverFile != "" && !(defFile == hoverFile || strings.HasSuffix(defFile, "/"+hoverFile)) {
				return violf("hover-def-disagree", "after %s: hover on %s(%q) shows %q but go-to-definition opens %q\n%s", r.desc, what, rf.mod, hoverFile, defFile, c18Show(&c, mainText))
			}
			// the file the analysis actually loaded: where a member of the required module resolves to
			if rf.probeCol >= 0 && defFile != "" {
				if pres := harness.ResultOf(o.Resp, r.probe[i]); pres != nil && pres.Error == "" {
					plocs, _ := parseLocations(pres.Result)
					loaded := ""
					for _, pl := range plocs {
						if pl.File != c18Users[rf.user] {
							loaded = pl.File
						}
					}
					if loaded != "" {
						env.Stats.Class("member-resolved-into-module")
						if loaded != defFile {
							return violf("loaded-vs-definition", "after %s: in %s go-to-definition on the string of require(%q) opens %q, but the analysis loaded %q (where m.probe resolves to)\n%s",
								r.desc, c18Users[rf.user], rf.mod, defFile, loaded, c18Show(&c, mainText))
						}
					} else {
						env.Stats.Class("member-not-resolved")
					}
				}
			}
			env.Stats.mu.Lock()
			env.Stats.Queries++
			env.Stats.mu.Unlock()
			key := fmt.Sprint(rf.user, cands)
			ck := fmt.Sprint(rf.user, rf.mod)
			if prev, ok := changed[ck]; ok && prev != key {
				nt = true
				env.Stats.Class("answer-changed-by-event")
			}
			changed[ck] = key
			if strings.ContainsAny(rf.mod, "./") && len(cands) > 0 {
				nt = true
			}
			if len(cands) > 1 {
				env.Stats.Class("several-candidates")
			}
		}
	}
	if nt && env.Stats.NT(fmt.Sprint(c)) {
		env.Stats.Class("nontrivial")
		env.Stats.Sample(3, c)
	}
	return nil
}

func c18Show(c *C18Case, mainText string) string {
	return fmt.Sprintf("separator=%q present=%v events=%v\n--- main.lua and lib/user.lua\n%s", c.Sep, c.Present, c.Events, mainText)
}

func TestC18(t *testing.T) { runProp(t, "C18", genC18, checkC18) }
