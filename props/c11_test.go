package props

import (
	"encoding/json"
	"fmt"
	"sort"
	"strings"
	"testing"

	"pgregory.net/rapid"

	"verif/harness"
	"verif/luagen"
	"verif/proto"
	"verif/reflua"
	"verif/refmodel"
)

// C11 — rename rewrites exactly the variable's occurrences and preserves meaning.

type C11Case struct {
	WS Workspace `json:"ws"`
	// Picks select which renameable occurrences are renamed (indices modulo the number of candidates)
	Picks   []int  `json:"picks"`
	NewName string `json:"newName"`
	// CloseEdit k > 0: before the renames, file k-1 gets an unsaved edit (Shift blank lines inserted at
	// its top) and is closed again without saving: its text on disk is what counts from then on
	CloseEdit int `json:"closeEdit,omitempty"`
	Shift     int `json:"shift,omitempty"`
}

func init() { register("C11", checkC11) }

func genC11(t *rapid.T) C11Case {
	o := semGenOpts{MaxFiles: 3, Naming: luagen.NamesTiny, Methods: true, GlobalsRW: true, MaxStats: 10}
	if rapid.IntRange(0, 3).Draw(t, "namingMixed") == 0 {
		o.Naming = luagen.NamesMixed
	}
	o.NoSameName = gate("c05-same-name-init")
	o.NoFuncInForBounds = gate("c05-func-in-for-bounds")
	o.NoFuncInTargetIndex = gate("c05-func-in-target")
	o.Self = !gate("c11-self")
	c := C11Case{WS: genWorkspace(t, o)}
	n := rapid.IntRange(1, 6).Draw(t, "nrenames")
	for i := 0; i < n; i++ {
		c.Picks = append(c.Picks, rapid.IntRange(0, 1<<20).Draw(t, "pick"))
	}
	c.NewName = rapid.SampledFrom([]string{"zq", "renamed_variable_9", "Z", "new_name1"}).Draw(t, "newName")
	if rapid.IntRange(0, 2).Draw(t, "closeEdit") == 0 {
		c.CloseEdit = rapid.IntRange(1, len(c.WS.Files)).Draw(t, "closeEditFile")
		c.Shift = rapid.IntRange(1, 3).Draw(t, "shift")
	}
	return c
}

type textEdit struct {
	Range struct {
		Start struct{ Line, Character int } `json:"start"`
		End   struct{ Line, Character int } `json:"end"`
	} `json:"range"`
	NewText string `json:"newText"`
}

type workspaceEdit struct {
	Changes map[string][]textEdit `json:"changes"`
}

type diagKey struct {
	File           string
	SL, SC, EL, EC int
	Type           int
}

func diagMultiset(pushes []proto.Push) map[diagKey]int {
	m := map[diagKey]int{}
	for uri, ds := range harness.FoldDiags(pushes, 1<<30) {
		for _, d := range ds {
			m[diagKey{harness.RelOfURI(uri), d.SL, d.SC, d.EL, d.EC, d.Type}]++
		}
	}
	return m
}

func checkC11(c C11Case, env *Env) *Violation {
	a, v := analyse(&c.WS)
	if v != nil {
		return v
	}
	// candidates: every variable occurrence that is renameable
	type cand struct {
		file int
		occ  *reflua.Occ
	}
	var cands []cand
	for fi, b := range a.bind {
		f := c.WS.Files[fi]
		for _, o := range b.Occs {
			if gate("c05-same-name-init") && o.InAssignOfSameName {
				// known finding C05-F1: a read inside a statement that assigns the same name
				excludedIn(env)
				continue
			}
			if o.Name.Off == o.Name.End || dcOcc(o) || (o.Decl != nil && o.Decl.Kind == reflua.DSelf) {
				continue
			}
			if o.Decl == nil && len(a.globalDefs[o.Name.Text]) == 0 {
				continue
			}
			if o.Decl == nil && gate("c06-global-two-files") && len(a.globalDefs[o.Name.Text]) > 1 {
				excludedIn(env)
				continue
			}
			if (gate("c05-bracket-quote") && kfBracketQuote(f.Text, o.Name.Off)) || (gate("c05-glued-bracket") && kfGluedBracket(f.Text, o.Name.Off)) {
				excludedIn(env)
				continue
			}
			if c.CloseEdit == fi+1 {
				continue // a client asks for renames in open documents only
			}
			cands = append(cands, cand{fi, o})
		}
	}
	if len(cands) == 0 {
		return nil
	}
	// the new name must be fresh in the whole workspace
	for _, b := range a.bind {
		for _, tk := range b.Res.Tokens {
			if tk.Text == c.NewName {
				return nil
			}
		}
	}
	allOn := harness.J(harness.AllOn())
	req := &proto.Request{Cmd: "session", Files: c.WS.protoFiles(), InitOptions: allOn}
	req.Steps = c.WS.openAll()
	if c.CloseEdit > 0 && c.CloseEdit <= len(c.WS.Files) {
		f := c.WS.Files[c.CloseEdit-1]
		req.Steps = append(req.Steps, harness.DidChangeFull(f.Path, 2, strings.Repeat("\n", c.Shift)+f.Text), harness.DidClose(f.Path))
		env.Stats.Class("rename-after-unsaved-edit-and-close")
	}
	type rq struct {
		cand cand
		step int
	}
	var rqs []rq
	for _, p := range c.Picks {
		cd := cands[p%len(cands)]
		f := c.WS.Files[cd.file]
		l := spanLoc(f.Path, f.Text, cd.occ.Name.Span)
		rqs = append(rqs, rq{cd, len(req.Steps)})
		req.Steps = append(req.Steps, harness.Call("textDocument/rename", harness.J(harness.M{
			"textDocument": harness.M{"uri": harness.URI(f.Path)}, "position": harness.Pos(l.SL, l.SC), "newName": c.NewName})))
	}
	o := env.Exec(req)
	if o.Crash() {
		return violf("crash", "server died: %s\n%s", o.Describe(), showWS(&c.WS))
	}
	if o.Resp.Fatal != "" || o.Resp.InitError != "" {
		return violf("inconclusive", "executor: %s %s", o.Resp.Fatal, o.Resp.InitError)
	}
	// which definition of a multiply defined global "wins" is scheduling dependent (C09's subject):
	// in such workspaces only the file-local diagnostic types are compared
	dupGlobal := false
	for _, ds := range a.globalDefs {
		if len(ds) > 1 {
			dupGlobal = true
		}
	}
	filterDiags := func(m map[diagKey]int) map[diagKey]int {
		if !dupGlobal {
			return m
		}
		out := map[diagKey]int{}
		for k, n := range m {
			switch k.Type {
			case 1, 4, 5, 7, 8, 13, 14, 15, 16, 17, 19, 20, 21:
				out[k] = n
			}
		}
		return out
	}
	origDiags := filterDiags(diagMultiset(o.Resp.Pushes))
	nt := false
	for _, q := range rqs {
		f := c.WS.Files[q.cand.file]
		at := spanLoc(f.Path, f.Text, q.cand.occ.Name.Span)
		old := q.cand.occ.Name.Text
		r := harness.ResultOf(o.Resp, q.step)
		if r == nil || r.Error != "" {
			return violf("error", "rename at %s failed: %v", at, r)
		}
		var we workspaceEdit
		if err := json.Unmarshal(r.Result, &we); err != nil {
			return violf("inconclusive", "cannot decode rename result %s", string(r.Result))
		}
		env.Stats.mu.Lock()
		env.Stats.Queries++
		env.Stats.mu.Unlock()
		var got []Loc
		for uri, es := range we.Changes {
			for _, e := range es {
				if e.NewText != c.NewName {
					return violf("newtext", "rename edit carries %q instead of the new name %q", e.NewText, c.NewName)
				}
				got = append(got, Loc{harness.RelOfURI(uri), e.Range.Start.Line, e.Range.Start.Character, e.Range.End.Line, e.Range.End.Character})
			}
		}
		want := a.occClass(q.cand.file, q.cand.occ)
		kind := "global"
		if q.cand.occ.Decl != nil {
			kind = q.cand.occ.Decl.Kind.String()
		}
		env.Stats.Class("rename-" + kind)
		// (1) each edit covers exactly one identifier spelled with the old name; no overlaps; set equality
		if len(got) != len(locSet(got)) {
			return violf("overlap", "rename of %s %q at %s returns overlapping/duplicate edits %s\n%s", kind, old, at, fmtLocs(got), showWS(&c.WS))
		}
		for _, g := range got {
			if t := textAt(&c.WS, g); t != old {
				return violf("edit-text", "rename of %s %q at %s: the edit %s covers %q, not the old name\n%s", kind, old, at, g, t, showWS(&c.WS))
			}
		}
		if !sameLocSet(got, want) {
			return violf("edit-set", "rename of %s %q at %s edits %s but the variable's occurrences are %s\n%s", kind, old, at, fmtLocs(got), fmtLocs(want), showWS(&c.WS))
		}
		// (2) apply the edit; binding structure and diagnostics must be those of the original up to the name
		newWS, mapPos := applyRename(&c.WS, got, c.NewName)
		a2, v2 := analyse(newWS)
		if v2 != nil {
			return violf("renamed-invalid", "after renaming %s %q at %s to %q the program is no longer valid Lua: %s\n%s", kind, old, at, c.NewName, v2.Msg, showWS(newWS))
		}
		if msg := bindingIso(a, a2); msg != "" {
			return violf("binding-changed", "after renaming %s %q at %s to %q the binding structure changed: %s\n--- before\n%s--- after\n%s", kind, old, at, c.NewName, msg, showWS(&c.WS), showWS(newWS))
		}
		o2 := env.Exec(&proto.Request{Cmd: "session", Files: newWS.protoFiles(), InitOptions: allOn})
		if o2.Crash() {
			return violf("crash", "server died on the renamed workspace: %s\n%s", o2.Describe(), showWS(newWS))
		}
		if o2.Resp.Fatal != "" || o2.Resp.InitError != "" {
			return violf("inconclusive", "executor: %s %s", o2.Resp.Fatal, o2.Resp.InitError)
		}
		newDiags := filterDiags(diagMultiset(o2.Resp.Pushes))
		mapped := map[diagKey]int{}
		for k, n := range origDiags {
			sl, sc := mapPos(k.File, k.SL, k.SC)
			el, ec := mapPos(k.File, k.EL, k.EC)
			mapped[diagKey{k.File, sl, sc, el, ec, k.Type}] += n
		}
		if isLibSpelling(old) {
			// The documented exemption "a local that aliases a library (local m = math) is not reported
			// unused" is decided by the spelling of the initialiser: renaming a variable that is spelled
			// like a library name legitimately changes the unused-local diagnostics of locals initialised
			// with it. Those two types are left out of the comparison for such names.
			for _, m := range []map[diagKey]int{mapped, newDiags} {
				for k := range m {
					if k.Type == 4 || k.Type == 17 {
						delete(m, k)
					}
				}
			}
		}
		if msg := diffDiagSets(mapped, newDiags); msg != "" {
			return violf("diags-changed", "after renaming %s %q at %s to %q the diagnostics differ from the original ones (positions shifted): %s\n--- before\n%s--- after\n%s",
				kind, old, at, c.NewName, msg, showWS(&c.WS), showWS(newWS))
		}
		others := 0
		for _, d := range a.bind[q.cand.file].Decls {
			if d.Name.Text == old && d != q.cand.occ.Decl {
				others++
			}
		}
		if len(want) >= 2 && others > 0 {
			nt = true
			env.Stats.Class("rename-with-same-named-other-variable")
		}
	}
	if nt && env.Stats.NT(showWS(&c.WS)+fmt.Sprint(c.Picks)) {
		env.Stats.Class("nontrivial")
		env.Stats.Sample(3, map[string]interface{}{"workspace": c.WS.Files, "renames": len(rqs), "newName": c.NewName})
	}
	return nil
}

// applyRename applies single-line edits to the workspace; returns the new workspace and a function
// mapping old positions to new positions.
func applyRename(ws *Workspace, edits []Loc, newName string) (*Workspace, func(file string, line, ch int) (int, int)) {
	nw := &Workspace{}
	type fe struct{ off, end int }
	perFile := map[string][]fe{}
	for _, f := range ws.Files {
		var es []fe
		for _, e := range edits {
			if e.File != f.Path {
				continue
			}
			s, _ := refmodel.OffsetOf(f.Text, e.SL, e.SC)
			t, _ := refmodel.OffsetOf(f.Text, e.EL, e.EC)
			es = append(es, fe{s, t})
		}
		sort.Slice(es, func(i, j int) bool { return es[i].off < es[j].off })
		perFile[f.Path] = es
		out := ""
		prev := 0
		for _, e := range es {
			out += f.Text[prev:e.off] + newName
			prev = e.end
		}
		out += f.Text[prev:]
		nw.Files = append(nw.Files, WSFile{Path: f.Path, Text: out})
	}
	mapPos := func(file string, line, ch int) (int, int) {
		for i, f := range ws.Files {
			if f.Path != file {
				continue
			}
			off, ok := refmodel.OffsetOf(f.Text, line, ch)
			if !ok {
				return line, ch
			}
			shift := 0
			for _, e := range perFile[file] {
				if e.end <= off {
					shift += len(newName) - (e.end - e.off)
				} else if e.off < off {
					// inside an edited identifier: map to the end of the new name
					shift += len(newName) - (off - e.off)
				}
			}
			return refmodel.PosOf(nw.Files[i].Text, off+shift)
		}
		return line, ch
	}
	return nw, mapPos
}

// bindingIso compares the binding graphs occurrence by occurrence (renaming keeps the token order).
func bindingIso(a, b *analysed) string {
	for fi := range a.bind {
		x, y := a.bind[fi].Occs, b.bind[fi].Occs
		if len(x) != len(y) {
			return fmt.Sprintf("file %d: %d variable occurrences before, %d after", fi, len(x), len(y))
		}
		idx := func(occs []*reflua.Occ, d *reflua.Decl) int {
			if d == nil {
				return -1
			}
			for i, o := range occs {
				if o.Name == d.Name {
					return i
				}
			}
			return -2
		}
		for i := range x {
			if idx(x, x[i].Decl) != idx(y, y[i].Decl) {
				return fmt.Sprintf("occurrence #%d (%q) is bound to declaration #%d before and #%d after", i, x[i].Name.Text, idx(x, x[i].Decl), idx(y, y[i].Decl))
			}
		}
		// globals: two global occurrences name the same global before iff they do after
		firstX, firstY := map[string]int{}, map[string]int{}
		for i := range x {
			if x[i].Decl != nil || y[i].Decl != nil {
				continue
			}
			fx, okx := firstX[x[i].Name.Text]
			fy, oky := firstY[y[i].Name.Text]
			if !okx {
				firstX[x[i].Name.Text] = i
				fx = i
			}
			if !oky {
				firstY[y[i].Name.Text] = i
				fy = i
			}
			if fx != fy {
				return fmt.Sprintf("global occurrence #%d (%q / %q) changed identity", i, x[i].Name.Text, y[i].Name.Text)
			}
		}
	}
	return ""
}

func diffDiagSets(want, got map[diagKey]int) string {
	for k, n := range want {
		if got[k] != n {
			return fmt.Sprintf("expected %d x %+v, got %d", n, k, got[k])
		}
	}
	for k, n := range got {
		if want[k] != n {
			return fmt.Sprintf("unexpected %d x %+v (expected %d)", n, k, want[k])
		}
	}
	return ""
}

func TestC11(t *testing.T) { runProp(t, "C11", genC11, checkC11) }

// isLibSpelling: the name is spelled like a standard-library name the server knows.
func isLibSpelling(n string) bool {
	switch n {
	case "type", "next", "file", "table", "string", "math", "io", "os":
		return true
	}
	return dcName(n)
}
