package props

import (
	"fmt"
	"strings"
	"testing"
	"unicode/utf8"

	"pgregory.net/rapid"

	"verif/harness"
	"verif/proto"
	"verif/refmodel"
)

// C02 — the server's copy of an open document equals the client's.

type C02Step struct {
	Kind  string          `json:"kind"`          // change | full | save | reopen
	Doc   int             `json:"doc,omitempty"` // which of the open documents (0 or 1)
	Edits []refmodel.Edit `json:"edits,omitempty"`
	Text  string          `json:"text,omitempty"`
	// FullAt: for a change batch, the index of the entry that is a full-text change (Text), -1 / absent
	// when every entry is ranged. LSP allows both kinds in one contentChanges array.
	FullAt *int `json:"fullAt,omitempty"`
}

type C02Case struct {
	Init string `json:"init"`
	// Init2: a second document open at the same time (when Two), edited in an interleaved way
	Two   bool      `json:"two,omitempty"`
	Init2 string    `json:"init2,omitempty"`
	Steps []C02Step `json:"steps"`
}

var c02Rel = [2]string{"doc.lua", "sub/other.lua"}

func init() { register("C02", checkC02) }

var c02Frags = []string{"local ", "x", "y1", " = ", " ", "\t", "1", "0x1F", "\"é\"", "'ж'", "--ж", "\"中\"", "中文", "\"😀\"", "😀",
	"'a\\n'", "(", ")", "end", "function f()", "return ", "[[", "]]", ",", ".", "é", "t.k", "{", "}", "if ", " then ", "--[[", "print"}
var c02EOL = []string{"\n", "\n", "\r\n", "\r"}

func c02GenFrag(t *rapid.T, label string) string {
	for {
		f := rapid.SampledFrom(c02Frags).Draw(t, label)
		if gate("c02-astral") && strings.Contains(f, "😀") {
			excluded()
			continue
		}
		return f
	}
}

func c02GenEOL(t *rapid.T, label string) string {
	for {
		e := rapid.SampledFrom(c02EOL).Draw(t, label)
		if gate("c02-cr") && e == "\r" {
			excluded()
			continue
		}
		return e
	}
}

func c02GenText(t *rapid.T, maxLines int, label string) string {
	var b strings.Builder
	n := rapid.IntRange(0, maxLines).Draw(t, label+"Lines")
	for i := 0; i < n; i++ {
		k := rapid.IntRange(0, 5).Draw(t, label+"Frags")
		for j := 0; j < k; j++ {
			b.WriteString(c02GenFrag(t, label+"Frag"))
		}
		if i < n-1 || rapid.IntRange(0, 3).Draw(t, label+"FinalEOL") > 0 {
			b.WriteString(c02GenEOL(t, label+"EOL"))
		}
	}
	return b.String()
}

func c02GenEdit(t *rapid.T, text string) refmodel.Edit {
	bs := refmodel.Boundaries(text)
	i := rapid.IntRange(0, len(bs)-1).Draw(t, "editStart")
	// end: mostly near the start, sometimes anywhere
	var j int
	switch rapid.IntRange(0, 3).Draw(t, "editSpan") {
	case 0:
		j = i
	case 1, 2:
		j = i + rapid.IntRange(0, 6).Draw(t, "editLen")
		if j > len(bs)-1 {
			j = len(bs) - 1
		}
	default:
		j = rapid.IntRange(i, len(bs)-1).Draw(t, "editEnd")
	}
	sl, sc := refmodel.PosOf(text, bs[i])
	el, ec := refmodel.PosOf(text, bs[j])
	ins := ""
	switch rapid.IntRange(0, 4).Draw(t, "insKind") {
	case 0:
	case 1:
		ins = c02GenFrag(t, "insFrag")
	case 2:
		ins = c02GenEOL(t, "insEOL")
	case 3:
		ins = c02GenFrag(t, "insFrag") + c02GenEOL(t, "insEOL") + c02GenFrag(t, "insFrag2")
	default:
		ins = c02GenText(t, 3, "ins")
	}
	e := refmodel.Edit{SL: sl, SC: sc, EL: el, EC: ec, Text: ins}
	// legal but unusual: a character beyond the end of the line (clamped by the specification)
	if rapid.IntRange(0, 9).Draw(t, "beyond") == 0 {
		if gate("c02-clamp") {
			excluded()
		} else {
			ls := refmodel.Lines(text)
			if bs[j] == ls[el].End {
				e.EC += rapid.IntRange(1, 5).Draw(t, "beyondBy")
				if i == j {
					e.SC = e.EC
					// start clamps to the same offset only if it is at the line end too (it is: i == j)
				}
			}
		}
	}
	return e
}

func genC02(t *rapid.T) C02Case {
	var c C02Case
	c.Init = c02GenText(t, 12, "init")
	ndocs := 1
	if rapid.IntRange(0, 3).Draw(t, "twoDocs") == 0 {
		c.Two = true
		c.Init2 = c02GenText(t, 8, "init2")
		ndocs = 2
	}
	text := [2]string{c.Init, c.Init2}
	saved := text
	n := rapid.IntRange(1, 20).Draw(t, "nsteps")
	for s := 0; s < n; s++ {
		var st C02Step
		if ndocs == 2 {
			st.Doc = rapid.IntRange(0, 1).Draw(t, "doc")
		}
		d := st.Doc
		switch rapid.IntRange(0, 11).Draw(t, "kind") {
		case 11:
			st.Kind = "folders" // the folder `sub` is added to / removed from the workspace folders while documents are open
		case 10:
			st.Kind = "config" // the user changes a setting while documents are open
		case 0:
			st.Kind = "full"
			st.Text = c02GenText(t, 8, "full")
			text[d] = st.Text
		case 1:
			st.Kind = "save"
			saved[d] = text[d]
		case 2:
			st.Kind = "reopen"
			text[d] = saved[d]
		default:
			st.Kind = "change"
			k := rapid.IntRange(1, 3).Draw(t, "batch")
			fullAt := -1
			if rapid.IntRange(0, 5).Draw(t, "mixedBatch") == 0 {
				fullAt = rapid.IntRange(0, k-1).Draw(t, "fullAt")
				st.FullAt = &fullAt
			}
			for i := 0; i < k; i++ {
				if i == fullAt {
					st.Text = c02GenText(t, 6, "batchFull")
					text[d] = st.Text
					st.Edits = append(st.Edits, refmodel.Edit{})
					continue
				}
				e := c02GenEdit(t, text[d])
				nt, ok := refmodel.Apply(text[d], e)
				if !ok {
					t.Fatalf("generator produced an inapplicable edit %+v on %q", e, text[d])
				}
				text[d] = nt
				st.Edits = append(st.Edits, e)
			}
		}
		c.Steps = append(c.Steps, st)
	}
	return c
}

func checkC02(c C02Case, env *Env) *Violation {
	ndocs := 1
	if c.Two {
		ndocs = 2
	}
	req := &proto.Request{Cmd: "session", Files: []proto.File{{Path: c02Rel[0], Data: []byte(c.Init)}},
		InitOptions: harness.J(harness.Flags(1))}
	if c.Two {
		req.Files = append(req.Files, proto.File{Path: c02Rel[1], Data: []byte(c.Init2)})
	}
	text := [2]string{c.Init, c.Init2}
	saved := text
	version := [2]int{1, 1}
	var expect []string // expected text after each getdoc
	add := func(s proto.Step) { req.Steps = append(req.Steps, s) }
	getdoc := func() {
		// every open document is compared after every step: an edit must not leak into the other one
		for d := 0; d < ndocs; d++ {
			add(proto.Step{Op: "getdoc", Path: harness.URI(c02Rel[d])})
			expect = append(expect, text[d])
		}
	}
	for d := 0; d < ndocs; d++ {
		add(harness.DidOpen(c02Rel[d], text[d]))
	}
	getdoc()
	nontrivial := false
	subAdded := false
	for _, st := range c.Steps {
		d := st.Doc
		if d < 0 || d >= ndocs {
			return violf("bad-case", "step names document %d", d)
		}
		rel := c02Rel[d]
		version[d]++
		switch st.Kind {
		case "full":
			text[d] = st.Text
			add(harness.DidChangeFull(rel, version[d], text[d]))
		case "save":
			saved[d] = text[d]
			add(proto.Step{Op: "write", Path: rel, Data: []byte(text[d])})
			add(harness.DidSave(rel, text[d]))
		case "config":
			// clients send the whole settings object; the server ignores the first notification after
			// start-up, so it is sent twice
			warn := harness.AllOn()
			delete(warn, "client")
			set := harness.J(harness.M{"settings": harness.M{"luahelper": harness.M{"base": harness.M{"ReferenceMaxNum": 3000, "ReferenceIncudeDefine": true}, "Warn": warn}}})
			add(proto.Step{Op: "notify", Method: "workspace/didChangeConfiguration", Params: set})
			add(proto.Step{Op: "notify", Method: "workspace/didChangeConfiguration", Params: set})
		case "folders":
			ev := harness.M{"added": []harness.M{}, "removed": []harness.M{}}
			key := "added"
			if subAdded {
				key = "removed"
			}
			ev[key] = []harness.M{{"uri": harness.URI("sub"), "name": "sub"}}
			subAdded = !subAdded
			add(proto.Step{Op: "notify", Method: "workspace/didChangeWorkspaceFolders", Params: harness.J(harness.M{"event": ev})})
		case "reopen":
			add(harness.DidClose(rel))
			text[d] = saved[d]
			add(harness.DidOpen(rel, text[d]))
		case "change":
			var changes []harness.M
			for ei, e := range st.Edits {
				if st.FullAt != nil && *st.FullAt == ei {
					text[d] = st.Text
					changes = append(changes, harness.M{"text": st.Text})
					continue
				}
				if isC02NT(text[d], e) {
					nontrivial = true
				}
				nt, ok := refmodel.Apply(text[d], e)
				if !ok {
					return violf("bad-case", "edit %+v not applicable to the model text", e)
				}
				text[d] = nt
				changes = append(changes, harness.M{"range": harness.M{"start": harness.Pos(e.SL, e.SC), "end": harness.Pos(e.EL, e.EC)}, "text": e.Text})
			}
			add(proto.Step{Op: "notify", Method: "textDocument/didChange", Params: harness.J(harness.M{
				"textDocument": harness.M{"uri": harness.URI(rel), "version": version[d]}, "contentChanges": changes})})
		}
		getdoc()
	}
	o := env.Exec(req)
	if o.Crash() {
		return violf("crash", "server died or hung while applying conformant edits: %s", o.Describe())
	}
	if o.Resp.Fatal != "" || o.Resp.InitError != "" {
		return violf("inconclusive", "executor: %s %s", o.Resp.Fatal, o.Resp.InitError)
	}
	k := 0
	for _, r := range o.Resp.Results {
		if req.Steps[r.Step].Op != "getdoc" {
			continue
		}
		want := expect[k]
		k++
		if !r.DocOK {
			return violf("not-open", "after step %d the server holds no text for the open document (client text %q)", r.Step, want)
		}
		if string(r.Doc) != want {
			return violf("stale", "after step %d (%s) server text %q != client text %q", r.Step, describeStep(req.Steps, r.Step), string(r.Doc), want)
		}
	}
	if k != len(expect) {
		return violf("inconclusive", "expected %d document snapshots, got %d", len(expect), k)
	}
	if env.Stats != nil {
		env.Stats.Class("sequences")
		if c.Two {
			env.Stats.Class("two-documents")
		}
		if nontrivial {
			if env.Stats.NT(fmt.Sprintf("%q|%v", c.Init, c.Steps)) {
				env.Stats.Class("nontrivial")
				env.Stats.Sample(4, c)
			}
		}
		for _, st := range c.Steps {
			env.Stats.Class("step-" + st.Kind)
			for _, e := range st.Edits {
				if e.SL != e.EL {
					env.Stats.Class("edit-multiline")
				}
				if strings.ContainsAny(e.Text, "\r\n") {
					env.Stats.Class("edit-inserts-eol")
				}
			}
			if len(st.Edits) > 1 {
				env.Stats.Class("batch>1")
			}
			if st.FullAt != nil && len(st.Edits) > 1 {
				env.Stats.Class("batch-mixing-full-and-ranged")
			}
		}
	}
	return nil
}

func describeStep(steps []proto.Step, i int) string {
	for j := i - 1; j >= 0; j-- {
		if steps[j].Op == "notify" {
			p := string(steps[j].Params)
			if len(p) > 300 {
				p = p[:300] + "…"
			}
			return steps[j].Method + " " + p
		}
	}
	return "?"
}

// isC02NT: an incremental edit on a document with >= 2 lines that contains a non-ASCII character
// or a non-LF line end before the edit position.
func isC02NT(text string, e refmodel.Edit) bool {
	off, ok := refmodel.OffsetOf(text, e.SL, e.SC)
	if !ok || len(refmodel.Lines(text)) < 2 {
		return false
	}
	pre := text[:off]
	return strings.Contains(pre, "\r") || utf8.RuneCountInString(pre) != len(pre)
}

func TestC02(t *testing.T) { runProp(t, "C02", genC02, checkC02) }
