package props

import (
	"encoding/json"
	"fmt"
	"sort"
	"strings"
	"testing"

	"pgregory.net/rapid"

	"verif/harness"
	"verif/luagen"
	"verif/proto"
	"verif/reflua"
	"verif/refmodel"
)

// C14 — completion offers the names that are in scope at the cursor, and only those.

type C14Case struct {
	WS     Workspace `json:"ws"`
	File   int       `json:"file"`   // file holding the planted statement
	Cursor int       `json:"cursor"` // byte offset of the cursor (end of the typed prefix)
	Prefix string    `json:"prefix"`
	Place  string    `json:"place"`
}

func init() { register("C14", checkC14) }

// c14Prefixes: two-letter beginnings of the generated names; several are keywords or start keywords
var c14Prefixes = []string{"ab", "in", "or", "do", "if", "no", "an", "en", "fu", "lo", "re", "wh", "tr", "ni", "fo", "el", "th", "un", "br", "go"}

func genC14(t *rapid.T) C14Case {
	c := genC14Static(t)
	// the other file of a two-file workspace may be created only after the server has started (a
	// watched-files Created event): its globals belong to the workspace all the same
	if len(c.WS.Files) == 2 && rapid.IntRange(0, 2).Draw(t, "otherFileCreatedLate") == 0 {
		c.WS.Late = 2 - c.File
	}
	return c
}

func genC14Static(t *rapid.T) C14Case {
	c14Prefix := rapid.SampledFrom(c14Prefixes).Draw(t, "prefix")
	// the planted identifier is the prefix itself (cursor at its end) or continues after the cursor
	tail := "q"
	if !reflua.IsKeyword(c14Prefix) && rapid.Bool().Draw(t, "cursorAtTokenEnd") {
		tail = ""
	}
	n := rapid.IntRange(1, 2).Draw(t, "nfiles")
	var toksPerFile [][]luagen.Tok
	for i := 0; i < n; i++ {
		cfg := luagen.DefaultConfig()
		cfg.Naming = luagen.NamesUnique
		cfg.Methods = true
		cfg.Goto = true
		cfg.Prefix = fmt.Sprintf("%s%d", c14Prefix, i)
		cfg.Globals = []string{c14Prefix + "G1", c14Prefix + "G2", c14Prefix + "gfun", "Gother"}
		cfg.Builtins = builtinNames
		cfg.MaxStats = 12
		cfg.GQualified = true // some globals are defined / read as _G.name
		cfg.NoFuncInForBounds = gate("c05-func-in-for-bounds")
		cfg.NoFuncInTargetIndex = gate("c05-func-in-target")
		toksPerFile = append(toksPerFile, luagen.Program(t, cfg))
	}
	fi := rapid.IntRange(0, n-1).Draw(t, "plantFile")
	toks := toksPerFile[fi]
	// string literals of the planted file may hold quote characters of the other kind, escaped quotes
	// or be long strings: the cursor's line then carries an odd number of `"` or `'` in plain code
	qs := rapid.IntRange(0, 5).Draw(t, "quoteStyle")
	strLits := []string{"", "\"it's\"", "'say \"hi'", "\"a \\\" b\"", "[[it's \"x]]", "'x\\''"}
	if qs > 0 {
		for i := range toks {
			tx := toks[i].Text
			if len(tx) >= 2 && tx[0] == '"' && tx[len(tx)-1] == '"' && !strings.ContainsAny(tx[1:len(tx)-1], "\\\"'") {
				in := tx[1 : len(tx)-1]
				switch qs {
				case 1:
					toks[i].Text = "\"it's " + in + "\""
				case 2:
					toks[i].Text = "'say \"" + in + "'"
				case 3:
					toks[i].Text = "\"a \\\" " + in + "\""
				case 4:
					toks[i].Text = "[[it's \"" + in + "]]"
				case 5:
					toks[i].Text = "'" + in + "\\''"
				}
			}
		}
	}
	var bounds []int
	for i, tk := range toks {
		if tk.NL {
			bounds = append(bounds, i)
		}
	}
	bounds = append(bounds, len(toks))
	plant := func(at int) ([]luagen.Tok, int) {
		ins := []luagen.Tok{{Text: "local", Var: luagen.VarNone, NL: true, Indent: 1, SelfOf: -1}, {Text: "zq", Var: luagen.VarNone, SelfOf: -1},
			{Text: "=", Var: luagen.VarNone, SelfOf: -1}, {Text: c14Prefix + tail, Var: luagen.VarNone, SelfOf: -1}}
		if qs > 0 {
			// local zq = "it's" .. PREFIX
			ins = append(ins[:3:3], luagen.Tok{Text: strLits[qs], Var: luagen.VarNone, SelfOf: -1}, luagen.Tok{Text: "..", Var: luagen.VarNone, SelfOf: -1}, ins[3])
		}
		out := append([]luagen.Tok{}, toks[:at]...)
		out = append(out, ins...)
		if at < len(toks) {
			rest := append([]luagen.Tok{}, toks[at:]...)
			rest[0].NL = true
			out = append(out, rest...)
		}
		return out, at + len(ins) - 1
	}
	// second placement: the prefix takes the place of a variable read anywhere in an expression (an
	// until / while / if condition, a call argument, a for bound, a return value, a table field ...)
	var reads []int
	for i, tk := range toks {
		if tk.Var != luagen.VarNone && tk.Var != i && !tk.Write && tk.SelfOf < 0 && tk.Text != "self" {
			reads = append(reads, i)
		}
	}
	replace := func(at int) ([]luagen.Tok, int) {
		out := append([]luagen.Tok{}, toks...)
		out[at].Text = c14Prefix + tail
		out[at].Var = luagen.VarNone
		return out, at
	}
	var c C14Case
	for try := 0; try < 12; try++ {
		var planted []luagen.Tok
		var prefTok, at int
		inExpr := len(reads) > 0 && rapid.Bool().Draw(t, "inExpr")
		if inExpr {
			at = reads[rapid.IntRange(0, len(reads)-1).Draw(t, "readAt")]
			planted, prefTok = replace(at)
		} else {
			at = bounds[rapid.IntRange(0, len(bounds)-1).Draw(t, "plantAt")]
			planted, prefTok = plant(at)
		}
		src, offs := luagen.RenderSimple(planted)
		res, _ := reflua.Analyze(src)
		if res.Verdict != reflua.Valid {
			continue
		}
		if inExpr {
			c.WS = Workspace{}
			for i := 0; i < n; i++ {
				if i == fi {
					c.WS.Files = append(c.WS.Files, WSFile{Path: wsFileNames[i], Text: src})
				} else {
					s, _ := luagen.RenderSimple(toksPerFile[i])
					c.WS.Files = append(c.WS.Files, WSFile{Path: wsFileNames[i], Text: s})
				}
			}
			c.File = fi
			c.Cursor = offs[prefTok] + len(c14Prefix)
			c.Prefix = c14Prefix
			c.Place = "expr"
			for k := at - 1; k >= 0; k-- {
				if reflua.IsKeyword(toks[k].Text) {
					c.Place = "expr-after-" + toks[k].Text
					break
				}
				if toks[k].NL {
					break
				}
			}
			return c
		}
		c.WS = Workspace{}
		for i := 0; i < n; i++ {
			if i == fi {
				c.WS.Files = append(c.WS.Files, WSFile{Path: wsFileNames[i], Text: src})
			} else {
				s, _ := luagen.RenderSimple(toksPerFile[i])
				c.WS.Files = append(c.WS.Files, WSFile{Path: wsFileNames[i], Text: s})
			}
		}
		c.File = fi
		c.Cursor = offs[prefTok] + len(c14Prefix)
		c.Prefix = c14Prefix
		if at < len(toks) {
			c.Place = "before-statement"
			if reflua.IsKeyword(toks[at].Text) || toks[at].Text == "::" {
				c.Place = "before-" + toks[at].Text
			}
		} else {
			c.Place = "eof"
		}
		return c
	}
	// fall back: plant at the very beginning (always valid)
	planted, prefTok := plant(0)
	src, offs := luagen.RenderSimple(planted)
	c.WS = Workspace{}
	for i := 0; i < n; i++ {
		if i == fi {
			c.WS.Files = append(c.WS.Files, WSFile{Path: wsFileNames[i], Text: src})
		} else {
			s, _ := luagen.RenderSimple(toksPerFile[i])
			c.WS.Files = append(c.WS.Files, WSFile{Path: wsFileNames[i], Text: s})
		}
	}
	c.File, c.Cursor, c.Prefix, c.Place = fi, offs[prefTok]+len(c14Prefix), c14Prefix, "start"
	return c
}

func checkC14(c C14Case, env *Env) *Violation {
	a, v := analyse(&c.WS)
	if v != nil {
		return v
	}
	f := c.WS.Files[c.File]
	b := a.bind[c.File]
	visible := map[string]bool{}
	invisible := map[string]bool{}
	for _, d := range b.Decls {
		if d.Kind == reflua.DSelf || d.Name.Text == "zq" {
			continue
		}
		if !strings.HasPrefix(d.Name.Text, c.Prefix) {
			continue
		}
		switch {
		case d.ScopeStart <= c.Cursor && c.Cursor <= d.ScopeEnd && d.Name.End <= c.Cursor:
			visible[d.Name.Text] = true
		case d.Name.Off > c.Cursor || c.Cursor > d.ScopeEnd:
			// declared later, or in a block that does not enclose the cursor
			invisible[d.Name.Text] = true
		default:
			// declared before the cursor in an enclosing block but not yet in scope (the cursor is
			// inside the declaration's own initialiser / for bounds): the property is silent
			env.Stats.mu.Lock()
			env.Stats.DontCare++
			env.Stats.mu.Unlock()
		}
	}
	for n := range visible {
		delete(invisible, n)
	}
	globals := map[string]bool{}
	for n := range a.globalDefs {
		if strings.HasPrefix(n, c.Prefix) {
			globals[n] = true
		}
	}
	for _, fb := range a.bind {
		if fb == nil {
			continue
		}
		for n := range fb.GFieldWrites {
			// `_G.name = v` / `function _G.name()` define the global too
			if strings.HasPrefix(n, c.Prefix) {
				globals[n] = true
			}
		}
	}
	for n := range globals {
		// `_G.name = v` can make a global of a name that is also a (currently invisible) local
		delete(invisible, n)
	}
	line, ch := refmodel.PosOf(f.Text, c.Cursor)
	req := &proto.Request{Cmd: "session", Files: c.WS.protoFiles(), InitOptions: harness.J(harness.Flags(1))}
	req.Steps = c.WS.openAll()
	if c.WS.Late > 0 {
		env.Stats.Class("other-file-created-after-start")
	}
	step := len(req.Steps)
	req.Steps = append(req.Steps, harness.Call("textDocument/completion", harness.J(harness.M{
		"textDocument": harness.M{"uri": harness.URI(f.Path)}, "position": harness.Pos(line, ch), "context": harness.M{"triggerKind": 1}})))
	o := env.Exec(req)
	if o.Crash() {
		return violf("crash", "server died: %s\n%s", o.Describe(), showWS(&c.WS))
	}
	if o.Resp.Fatal != "" || o.Resp.InitError != "" {
		return violf("inconclusive", "executor: %s %s", o.Resp.Fatal, o.Resp.InitError)
	}
	r := harness.ResultOf(o.Resp, step)
	if r == nil || r.Error != "" {
		return violf("error", "completion failed: %v", r)
	}
	var cl struct {
		Items []struct {
			Label string `json:"label"`
		} `json:"items"`
	}
	if err := json.Unmarshal(r.Result, &cl); err != nil {
		// some servers answer a bare array
		var items []struct {
			Label string `json:"label"`
		}
		if err2 := json.Unmarshal(r.Result, &items); err2 != nil {
			return violf("inconclusive", "cannot decode completion result %s", string(r.Result))
		}
		cl.Items = items
	}
	labels := map[string]bool{}
	for _, it := range cl.Items {
		labels[it.Label] = true
	}
	where := fmt.Sprintf("%s:%d:%d (prefix %s planted %s)", f.Path, line, ch, c.Prefix, c.Place)
	names := func(m map[string]bool) []string {
		var s []string
		for n := range m {
			s = append(s, n)
		}
		sort.Strings(s)
		return s
	}
	for _, n := range names(visible) {
		if !labels[n] {
			return violf("missing-local", "completion of %q at %s does not offer the visible local %q\nvisible %v\n%s", c.Prefix, where, n, names(visible), showWS(&c.WS))
		}
	}
	for _, n := range names(globals) {
		if !labels[n] {
			return violf("missing-global", "completion of %q at %s does not offer the workspace global %q\n%s", c.Prefix, where, n, showWS(&c.WS))
		}
	}
	for _, n := range names(invisible) {
		if labels[n] {
			return violf("invisible-offered", "completion of %q at %s offers %q, a local that is not visible at the cursor\nvisible %v\n%s", c.Prefix, where, n, names(visible), showWS(&c.WS))
		}
	}
	env.Stats.mu.Lock()
	env.Stats.Queries++
	env.Stats.mu.Unlock()
	env.Stats.Class("place-" + c.Place)
	if len(visible) > 0 && len(invisible) > 0 && env.Stats.NT(showWS(&c.WS)+fmt.Sprint(c.Cursor)) {
		env.Stats.Class("nontrivial")
		env.Stats.Sample(3, map[string]interface{}{"file": f, "cursor": where, "visible": names(visible), "invisible": names(invisible), "globals": names(globals)})
	}
	return nil
}

func TestC14(t *testing.T) { runProp(t, "C14", genC14, checkC14) }
