package props

import (
	"fmt"
	"strings"
	"testing"

	"pgregory.net/rapid"

	"verif/harness"
	"verif/luagen"
	"verif/proto"
)

// C16 — every documented annotation form is accepted with its structure intact.

type C16Line struct {
	Kind  string   `json:"kind"`
	Text  string   `json:"text"`  // "@type number | string @note" (without the leading "---")
	Dump  string   `json:"dump"`  // expected canonical dump of the statement
	Norms []string `json:"norms"` // expected canonical form of each type in the line
	Name  string   `json:"name"`
	NT    bool     `json:"nt"`
}

type C16Case struct {
	Lines []C16Line `json:"lines"`
	// Corrupt: index of the line that is corrupted in the metamorphic part (-1: none)
	Corrupt     int    `json:"corrupt"`
	CorruptText string `json:"corruptText,omitempty"`
	// UnknownFirst: the file starts with an annotation that names an undeclared class (a non-syntax
	// annotation warning in front of everything else)
	UnknownFirst bool `json:"unknownFirst,omitempty"`
	// Tight: no blank line between the blocks; the code line above each annotation block ends in a
	// short trailing comment
	Tight bool `json:"tight,omitempty"`
}

func init() { register("C16", checkC16) }

var c16Classes = []string{"Cls1", "Cls2", "Cls3", "Alias1"}

func c16Expected(l luagen.AnnotLine) string {
	var norms []string
	for _, t := range l.Types {
		norms = append(norms, t.Norm())
	}
	switch l.Kind {
	case "type":
		return "(type " + strings.Join(norms, " ") + ")"
	case "return":
		return "(return " + strings.Join(norms, " ") + ")"
	case "field":
		vis := "public"
		for _, v := range []string{"public", "protected", "private"} {
			if strings.HasPrefix(l.Text, "@field "+v+" ") {
				vis = v
			}
		}
		return "(field " + vis + " " + l.Name + " " + norms[0] + ")"
	case "param":
		o := ""
		if strings.HasPrefix(l.Text, "@param "+l.Name+"?") {
			o = "?"
		}
		return "(param " + l.Name + o + " " + norms[0] + ")"
	case "alias":
		return "(alias " + l.Name + " " + norms[0] + ")"
	case "overload":
		return "(overload " + norms[0] + ")"
	case "vararg":
		return "(vararg " + norms[0] + ")"
	}
	return ""
}

func genC16(t *rapid.T) C16Case {
	var c C16Case
	n := rapid.IntRange(1, 6).Draw(t, "nlines")
	for i := 0; i < n; i++ {
		kind := rapid.SampledFrom([]string{"type", "type", "field", "param", "return", "alias", "overload", "vararg", "class", "generic"}).Draw(t, "kind")
		al := luagen.GenAnnotLineN(t, kind, rapid.IntRange(0, 4).Draw(t, "depth"), c16Classes, i)
		l := C16Line{Kind: al.Kind, Text: al.Text, Name: al.Name}
		for _, ty := range al.Types {
			l.Norms = append(l.Norms, ty.Norm())
			if ty.Depth() >= 2 && (ty.Has("array", "union") || ty.Has("fun", "fun")) {
				l.NT = true
			}
		}
		l.Dump = c16Expected(al)
		if al.Kind == "class" {
			// parents: text after ':' split by ','
			parents := []string{}
			if k := strings.Index(al.Text, " : "); k >= 0 {
				rest := al.Text[k+3:]
				if m := strings.Index(rest, " @"); m >= 0 {
					rest = rest[:m]
				}
				for _, p := range strings.Split(rest, ",") {
					parents = append(parents, strings.TrimSpace(p))
				}
			}
			l.Dump = "(class " + al.Name + " [" + strings.Join(parents, " ") + "])"
		}
		if al.Kind == "generic" {
			body := strings.TrimPrefix(al.Text, "@generic ")
			if m := strings.Index(body, " @"); m >= 0 {
				body = body[:m]
			}
			var names, parents []string
			for _, g := range strings.Split(body, ",") {
				parts := strings.Split(g, ":")
				names = append(names, strings.TrimSpace(parts[0]))
				if len(parts) > 1 {
					parents = append(parents, strings.TrimSpace(parts[1]))
				} else {
					parents = append(parents, "")
				}
			}
			l.Dump = "(generic [" + strings.Join(names, " ") + "] [" + strings.Join(parents, " ") + "])"
		}
		c.Lines = append(c.Lines, l)
	}
	c.Corrupt = -1
	c.UnknownFirst = rapid.IntRange(0, 2).Draw(t, "unknownFirst") == 0
	c.Tight = rapid.IntRange(0, 2).Draw(t, "tightLayout") == 0
	if rapid.IntRange(0, 2).Draw(t, "withCorruption") == 0 {
		c.Corrupt = rapid.IntRange(0, len(c.Lines)-1).Draw(t, "corruptLine")
		txt := c.Lines[c.Corrupt].Text
		// one token deleted / duplicated / replaced (tokens: words and punctuation)
		toks := splitAnnotTokens(txt)
		at := rapid.IntRange(1, len(toks)-1).Draw(t, "corruptAt") // keep the @kind word
		switch rapid.IntRange(0, 2).Draw(t, "corruptKind") {
		case 0:
			toks = append(toks[:at], toks[at+1:]...)
		case 1:
			toks = append(toks[:at+1], toks[at:]...)
		default:
			toks[at] = rapid.SampledFrom([]string{"|", "[", "]", "(", ")", "<", ">", ",", ":", "fun", "?", "table"}).Draw(t, "corruptTo")
		}
		c.CorruptText = strings.Join(toks, " ")
	}
	return c
}

func splitAnnotTokens(s string) []string {
	var toks []string
	cur := ""
	flush := func() {
		if cur != "" {
			toks = append(toks, cur)
			cur = ""
		}
	}
	for _, r := range s {
		switch {
		case r == ' ':
			flush()
		case strings.ContainsRune("|[](),:<>?", r):
			flush()
			toks = append(toks, string(r))
		default:
			cur += string(r)
		}
	}
	flush()
	return toks
}

// c16File embeds the lines in an otherwise valid file: a preamble declaring every referenced class,
// then one block per line with the Lua statement the annotation belongs to.
func c16File(lines []string, kinds []string, unknownFirst bool, tight bool) (text string, lineOf []int) {
	var b strings.Builder
	if unknownFirst {
		b.WriteString("---@type NoSuchCls0\nlocal u0 = nil\nprint(u0)\n\n")
	}
	b.WriteString("---@class Cls1\n---@field base number\n\n---@class Cls2 : Cls1\n\n---@class Cls3\n\n---@alias Alias1 number\n\n")
	ln := 9
	if unknownFirst {
		ln += 4
	}
	// sep ends every block: a blank line, or (tight) a trailing comment on the last code line and no blank line
	sep, sepLines := "\n\n", 1
	if tight {
		sep, sepLines = " -- done\n", 0
		b.WriteString("local z0 = 0 -- start\n")
		ln++
	}
	for i, l := range lines {
		lineOf = append(lineOf, ln)
		switch kinds[i] {
		case "type", "alias":
			fmt.Fprintf(&b, "---%s\nlocal v%d = nil\nprint(v%d)%s", l, i, i, sep)
			ln += 3 + sepLines
		case "class":
			fmt.Fprintf(&b, "---%s\nlocal c%d = {}\nprint(c%d)%s", l, i, i, sep)
			ln += 3 + sepLines
		case "field":
			fmt.Fprintf(&b, "---@class Own%d\n---%s\nlocal o%d = {}\nprint(o%d)%s", i, l, i, i, sep)
			lineOf[i] = ln + 1
			ln += 4 + sepLines
		default: // param, return, generic, overload, vararg
			fmt.Fprintf(&b, "---%s\nlocal function f%d(p1, p2, p3, ...)\n  return p1, p2, p3\nend\nprint(f%d)%s", l, i, i, sep)
			ln += 5 + sepLines
		}
	}
	// probe: a last block naming an undeclared class; its "unknown type" warning shows that a block in
	// this position is read at all
	b.WriteString("---@type NoSuchCls9\nlocal u9 = nil\nprint(u9)\n")
	return b.String(), lineOf
}

func checkC16(c C16Case, env *Env) *Violation {
	// part A: every valid line is accepted and understood with the documented structure
	var lines []string
	for _, l := range c.Lines {
		lines = append(lines, "-"+l.Text)
	}
	o := env.Exec(&proto.Request{Cmd: "annot", Lines: lines})
	if o.Crash() {
		return violf("crash", "annotation parser died: %s\n%v", o.Describe(), lines)
	}
	if o.Resp.Fatal != "" || len(o.Resp.Annot) != len(lines) {
		return violf("inconclusive", "executor: %s", o.Resp.Fatal)
	}
	var reparse []string
	type rtWant struct{ want, orig, printed string }
	var reparseWant []rtWant
	for i, l := range c.Lines {
		a := o.Resp.Annot[i]
		if !a.OK {
			return violf("rejected", "the documented annotation line `---%s` is rejected: %s", l.Text, a.Err)
		}
		if l.Dump != "" && a.Dump != l.Dump {
			return violf("structure", "the annotation line `---%s` is understood as %s, the documented grammar gives %s", l.Text, a.Dump, l.Dump)
		}
		if len(a.Types) != len(l.Norms) && l.Kind != "class" && l.Kind != "generic" {
			return violf("structure", "the annotation line `---%s` yields %d types, expected %d", l.Text, len(a.Types), len(l.Norms))
		}
		for k, printed := range a.Types {
			if k >= len(l.Norms) {
				break
			}
			// round trip: print the understood type, read it again (display keyword function( -> fun()
			back := strings.ReplaceAll(printed, "function(", "fun(")
			reparse = append(reparse, "-@type "+back)
			reparseWant = append(reparseWant, rtWant{"(type " + l.Norms[k] + ")", l.Text, printed})
		}
		env.Stats.Class("line-" + l.Kind)
	}
	if len(reparse) > 0 {
		o2 := env.Exec(&proto.Request{Cmd: "annot", Lines: reparse})
		if o2.Crash() || o2.Resp.Fatal != "" || len(o2.Resp.Annot) != len(reparse) {
			return violf("inconclusive", "executor failure on re-parse")
		}
		for i, a := range o2.Resp.Annot {
			w := reparseWant[i]
			if !a.OK {
				return violf("roundtrip-rejected", "the type understood from `---%s` is printed as %q, which is rejected when read again (%s)", w.orig, w.printed, a.Err)
			}
			if a.Dump != w.want {
				return violf("roundtrip", "the type understood from `---%s` is printed as %q, which reads back as %s instead of %s", w.orig, w.printed, a.Dump, w.want)
			}
		}
	}
	if linesOnly {
		return nil
	}
	// part B: in a file, valid lines raise no annotation warning (type 18)
	var texts, kinds []string
	for _, l := range c.Lines {
		texts = append(texts, l.Text)
		kinds = append(kinds, l.Kind)
	}
	fileText, lineOf := c16File(texts, kinds, c.UnknownFirst, c.Tight)
	run := func(text string) (diagSet, map[int][]string, *Violation) {
		req := &proto.Request{Cmd: "session", Files: []proto.File{{Path: "main.lua", Data: []byte(text)}, {Path: "other.lua", Data: []byte("print(1)\n")}},
			InitOptions: harness.J(harness.AllOn())}
		// an unrelated file changes on disk: the workspace is checked again, main.lua is not re-read
		req.Steps = []proto.Step{{Op: "barrier"}, {Op: "write", Path: "other.lua", Data: []byte("print(2)\n")}, harness.Watched([2]interface{}{"other.lua", 2})}
		so := env.Exec(req)
		if so.Crash() {
			return nil, nil, violf("crash", "server died: %s\n%s", so.Describe(), text)
		}
		if so.Resp.Fatal != "" || so.Resp.InitError != "" {
			return nil, nil, violf("inconclusive", "executor: %s %s", so.Resp.Fatal, so.Resp.InitError)
		}
		byLine := map[int][]string{}
		for _, ds := range harness.FoldDiags(so.Resp.Pushes, 1<<30) {
			for _, d := range ds {
				byLine[d.SL] = append(byLine[d.SL], fmt.Sprintf("%d|%d:%d-%d:%d|%s", d.Type, d.SL, d.SC, d.EL, d.EC, d.Message))
			}
		}
		before, after := viewOf(so.Resp.Pushes, 0).ofFile("main.lua", func(int) bool { return true }), viewOf(so.Resp.Pushes, 1<<30).ofFile("main.lua", func(int) bool { return true })
		if d := diffSets(after, before); d != "" {
			return nil, nil, violf("recheck-changed", "after an unrelated file changed on disk the diagnostics of main.lua differ from those of the initial analysis:\n%s\n%s", d, text)
		}
		return viewOf(so.Resp.Pushes, 1<<30), byLine, nil
	}
	base, baseByLine, v := run(fileText)
	if v != nil {
		return v
	}
	probeSeen := false
	for k := range base {
		if strings.Contains(k, "NoSuchCls9") {
			probeSeen = true
			continue
		}
		if c.UnknownFirst && strings.Contains(k, "NoSuchCls0") {
			continue
		}
		if strings.Contains(k, "|18|") {
			return violf("warned", "a file of documented annotation lines gets an annotation warning: %s\n%s", k, fileText)
		}
	}
	if !probeSeen {
		return violf("block-ignored", "the last annotation block (---@type NoSuchCls9) raises no unknown-type warning: the block was not read (tight layout=%v)\n%s", c.Tight, fileText)
	}
	if c.Tight {
		env.Stats.Class("blocks-directly-below-trailing-comments")
	}
	if c.Corrupt >= 0 {
		texts2 := append([]string{}, texts...)
		texts2[c.Corrupt] = c.CorruptText
		// is the corrupted line still a documented line? (corruptions that happen to be valid are don't-care)
		fileText2, _ := c16File(texts2, kinds, c.UnknownFirst, c.Tight)
		_, byLine2, v := run(fileText2)
		if v != nil {
			return v
		}
		bad := lineOf[c.Corrupt]
		for ln, ds := range byLine2 {
			if ln == bad {
				for _, d := range ds {
					if !strings.HasPrefix(d, "18|") && !c16In(baseByLine[ln], d) {
						// a Lua diagnostic cannot sit on a comment line; anything new there must be type 18
						return violf("corrupt-other-type", "corrupting `---%s` into `---%s` produces a non-annotation diagnostic on that line: %s\n%s", texts[c.Corrupt], c.CorruptText, d, fileText2)
					}
				}
				continue
			}
			for _, d := range ds {
				if !c16In(baseByLine[ln], d) {
					if gate("c16-corrupt-neighbours") && strings.HasPrefix(d, "18|") {
						excludedIn(env)
						continue
					}
					return violf("corrupt-spreads", "corrupting line %d `---%s` into `---%s` adds a diagnostic on line %d: %s\n%s", bad, texts[c.Corrupt], c.CorruptText, ln, d, fileText2)
				}
			}
		}
		for ln, ds := range baseByLine {
			if ln == bad {
				continue
			}
			for _, d := range ds {
				if !c16In(byLine2[ln], d) {
					return violf("corrupt-removes", "corrupting line %d `---%s` into `---%s` removes the diagnostic %s of line %d\n%s", bad, texts[c.Corrupt], c.CorruptText, d, ln, fileText2)
				}
			}
		}
		env.Stats.Class("corrupted")
	}
	nt := false
	for _, l := range c.Lines {
		if l.NT {
			nt = true
		}
	}
	if nt && env.Stats.NT(fmt.Sprint(c)) {
		env.Stats.Class("nontrivial")
		env.Stats.Sample(4, c)
	}
	return nil
}

func c16In(list []string, x string) bool {
	for _, y := range list {
		if y == x {
			return true
		}
	}
	return false
}

func TestC16(t *testing.T) { runProp(t, "C16", genC16, checkC16) }
