// Package props holds one rapid property per listed property Cxx, the oracles, and the shared
// bookkeeping (statistics for the evidence files, replay files, confirmation in a fresh child).
package props

import (
	"encoding/json"
	"flag"
	"fmt"
	"hash/fnv"
	"os"
	"sort"
	"sync"
	"testing"

	"pgregory.net/rapid"

	"verif/harness"
	"verif/proto"
)

// Violation is what an oracle returns when the property does not hold on a case.
type Violation struct {
	Msg string `json:"msg"`
	// Class is a short machine-readable tag of what failed (used to match known findings).
	Class string `json:"class,omitempty"`
}

func (v *Violation) Error() string { return v.Msg }

func violf(class, f string, a ...interface{}) *Violation {
	return &Violation{Class: class, Msg: fmt.Sprintf(f, a...)}
}

// Env is what an oracle uses to reach the system under test.
type Env struct {
	Fresh bool // run every request in a brand-new child (used for confirmation and replay)
	Stats *Stats
}

var pool = harness.NewPool(harness.Bin())

// inprocExec, when set (native fuzz targets, built with -tags verif), serves the stateless commands
// (parse, annot) inside the calling process so that Go's coverage guidance sees LuaHelper's code.
var inprocExec func(req *proto.Request) *proto.Response

// linesOnly: the caller wants only the stateless part of a check (no LSP session)
var linesOnly bool

func (e *Env) Exec(req *proto.Request) harness.Outcome {
	if inprocExec != nil && (req.Cmd == "parse" || req.Cmd == "annot") {
		return harness.Outcome{Resp: inprocExec(req)}
	}
	if e.Fresh {
		return pool.ExecFresh(req)
	}
	return pool.Exec(req)
}

// ---------------------------------------------------------------------------------------------

type Stats struct {
	mu           sync.Mutex
	Property     string            `json:"property"`
	Evaluations  int               `json:"evaluations"`
	NTHashes     []uint64          `json:"nt_hashes"`
	Classes      map[string]int    `json:"classes"`
	Samples      []json.RawMessage `json:"samples"`
	Queries      int               `json:"queries"`
	DontCare     int               `json:"dont_care"`
	Excluded     int               `json:"excluded_by_known_finding"`
	Unconfirmed  int               `json:"unconfirmed"`
	Spawned      int               `json:"children_spawned"`
	Violations   int               `json:"violations"`
	Inconclusive []string          `json:"inconclusive,omitempty"`
	ntSet        map[uint64]struct{}
}

var stats = &Stats{Classes: map[string]int{}, ntSet: map[uint64]struct{}{}}

func (s *Stats) Eval() {
	s.mu.Lock()
	s.Evaluations++
	s.mu.Unlock()
}

func (s *Stats) Class(name string) { s.ClassN(name, 1) }

func (s *Stats) ClassN(name string, n int) {
	s.mu.Lock()
	s.Classes[name] += n
	s.mu.Unlock()
}

// NT records one non-trivial case, identified by a canonical string; returns true if it was new.
func (s *Stats) NT(canon string) bool {
	h := fnv.New64a()
	h.Write([]byte(canon))
	k := h.Sum64()
	s.mu.Lock()
	defer s.mu.Unlock()
	if _, ok := s.ntSet[k]; ok {
		return false
	}
	if len(s.ntSet) < 400000 {
		s.ntSet[k] = struct{}{}
	}
	return true
}

// Sample keeps up to max samples.
func (s *Stats) Sample(max int, v interface{}) {
	s.mu.Lock()
	defer s.mu.Unlock()
	if len(s.Samples) >= max {
		return
	}
	b, err := json.Marshal(v)
	if err == nil && len(b) < 6000 {
		s.Samples = append(s.Samples, b)
	}
}

func (s *Stats) Inconcl(msg string) {
	s.mu.Lock()
	if len(s.Inconclusive) < 20 {
		s.Inconclusive = append(s.Inconclusive, msg)
	}
	s.mu.Unlock()
}

func (s *Stats) write() {
	out := os.Getenv("VERIF_STATS_OUT")
	if out == "" {
		return
	}
	s.mu.Lock()
	defer s.mu.Unlock()
	s.NTHashes = s.NTHashes[:0]
	for k := range s.ntSet {
		s.NTHashes = append(s.NTHashes, k)
	}
	sort.Slice(s.NTHashes, func(i, j int) bool { return s.NTHashes[i] < s.NTHashes[j] })
	s.Spawned = pool.Spawned
	b, _ := json.Marshal(s)
	os.WriteFile(out, b, 0o644)
}

// ---------------------------------------------------------------------------------------------

// ReplayFile is the format of replays/**.json.
type ReplayFile struct {
	Property string          `json:"property"`
	Message  string          `json:"message"`
	Class    string          `json:"class,omitempty"`
	Case     json.RawMessage `json:"case"`
}

type propDef struct {
	id     string
	replay func(raw json.RawMessage, env *Env) *Violation
}

var registry = map[string]*propDef{}

// noConfirm: properties whose violations are schedule dependent (C09, C10)
var noConfirm = map[string]bool{"C09": true, "C10": true}

// register makes a property replayable from a file.
func register[C any](id string, check func(c C, env *Env) *Violation) {
	registry[id] = &propDef{id: id, replay: func(raw json.RawMessage, env *Env) *Violation {
		var c C
		if err := json.Unmarshal(raw, &c); err != nil {
			return &Violation{Msg: "cannot decode case: " + err.Error(), Class: "bad-replay"}
		}
		return check(c, env)
	}}
}

func saveReplay(id string, c interface{}, v *Violation) string {
	out := os.Getenv("VERIF_REPLAY_OUT")
	if out == "" {
		return ""
	}
	raw, _ := json.Marshal(c)
	b, _ := json.MarshalIndent(ReplayFile{Property: id, Message: v.Msg, Class: v.Class, Case: raw}, "", " ")
	os.WriteFile(out, b, 0o644)
	return out
}

// runProp is the common driver of a rapid property: generate, check in the pooled child, confirm a
// failure in a fresh child, save the (eventually minimal) failing case as the replay file.
func runProp[C any](t *testing.T, id string, gen func(t *rapid.T) C, check func(c C, env *Env) *Violation) {
	stats.Property = id
	rapid.Check(t, func(rt *rapid.T) {
		c := gen(rt)
		stats.Eval()
		v := check(c, &Env{Stats: stats})
		if v == nil {
			return
		}
		if v.Class == "inconclusive" {
			stats.Inconcl(v.Msg)
			return
		}
		if noConfirm[id] {
			// schedule-dependent properties: the observed difference / race report is the witness; a
			// second run may well pass
			saveReplay(id, c, v)
			rt.Fatalf("property %s violated [%s]: %s", id, v.Class, v.Msg)
		}
		// confirm in a brand-new child (guards against state leaking between sessions of one child)
		v2 := check(c, &Env{Fresh: true, Stats: &Stats{Classes: map[string]int{}, ntSet: map[uint64]struct{}{}}})
		if v2 == nil {
			stats.mu.Lock()
			stats.Unconfirmed++
			stats.mu.Unlock()
			fmt.Fprintf(os.Stderr, "UNCONFIRMED %s: %s\n", id, v.Msg)
			return
		}
		if v2.Class == "inconclusive" {
			stats.Inconcl(v2.Msg)
			return
		}
		saveReplay(id, c, v2)
		rt.Fatalf("property %s violated [%s]: %s", id, v2.Class, v2.Msg)
	})
}

var replayFlag = flag.String("replay", "", "replay file to re-decide (used with -test.run TestReplay)")

// RunMain is called from TestMain.
func RunMain(m *testing.M) {
	flag.Parse()
	code := m.Run()
	pool.Close()
	stats.write()
	os.Exit(code)
}

// ReplayOne re-decides a saved case without rapid. Returns nil if the property holds on it.
func ReplayOne(path string) (*ReplayFile, *Violation) {
	b, err := os.ReadFile(path)
	if err != nil {
		return nil, &Violation{Msg: err.Error(), Class: "bad-replay"}
	}
	var rf ReplayFile
	if err := json.Unmarshal(b, &rf); err != nil {
		return nil, &Violation{Msg: err.Error(), Class: "bad-replay"}
	}
	def := registry[rf.Property]
	if def == nil {
		return &rf, &Violation{Msg: "unknown property " + rf.Property, Class: "bad-replay"}
	}
	return &rf, def.replay(rf.Case, &Env{Fresh: true, Stats: &Stats{Classes: map[string]int{}, ntSet: map[uint64]struct{}{}}})
}

func tier() string {
	if v := os.Getenv("VERIF_TIER"); v != "" {
		return v
	}
	return "quick"
}
