package props

import (
	"fmt"
	"sort"
	"testing"

	"pgregory.net/rapid"

	"verif/harness"
	"verif/luagen"
	"verif/proto"
	"verif/reflua"
	"verif/refmodel"
)

// C20 — pattern-based semantic checks fire exactly where their pattern occurs.

type C20Case struct {
	Text string `json:"text"`
	// Config: 0 none; 1: a luahelper.json whose per-file rules (IgnoreFileErrTypes / IgnoreFileErr) name
	// other files and, for this file, only a type that is not among the pattern checks — the reports must
	// be the same as without it
	Config int `json:"config,omitempty"`
}

func init() { register("C20", checkC20) }

var c20Types = []int{5, 7, 8, 13, 14, 15, 16, 19, 20, 21}

func genC20(t *rapid.T) C20Case {
	cfg := luagen.DefaultConfig()
	cfg.Naming = luagen.NamesTiny
	if rapid.Bool().Draw(t, "mixedNames") {
		cfg.Naming = luagen.NamesMixed
	}
	cfg.Patterns = true
	cfg.Methods = true
	cfg.Goto = true
	cfg.MaxStats = 12
	cfg.ExpDepth = 3
	cfg.NoFuncInForBounds = gate("c05-func-in-for-bounds")
	cfg.NoFuncInTargetIndex = gate("c05-func-in-target")
	toks := luagen.Program(t, cfg)
	src, _ := luagen.RenderSimple(toks)
	cfg20 := 0
	if rapid.IntRange(0, 3).Draw(t, "perFileRules") == 0 {
		cfg20 = 1
	}
	return C20Case{Text: src, Config: cfg20}
}

type c20Key struct {
	Type, Line int
}

func checkC20(c C20Case, env *Env) *Violation {
	res, _ := reflua.Analyze(c.Text)
	if res.Verdict != reflua.Valid {
		return violf("inconclusive", "generated file not valid: %v %v", res.Err, res.Context)
	}
	flags := append([]int{1}, c20Types...)
	req := &proto.Request{Cmd: "session", Files: []proto.File{{Path: "main.lua", Data: []byte(c.Text)}}, InitOptions: harness.J(harness.Flags(flags...))}
	if c.Config == 1 {
		req.Files = append(req.Files, proto.File{Path: "other/zzother.lua", Data: []byte("local zz = 1\n")},
			proto.File{Path: "luahelper.json", Data: []byte(`{"BaseDir":"./","ShowWarnFlag":1,"IgnoreFileErr":["other/zzother.lua"],` +
				`"IgnoreFileErrTypes":[{"File":"other/zzother.lua","Types":[5,7,8,13,14,15,16,19,20,21]},{"File":"main.lua","Types":[4]}]}`)})
		env.Stats.Class("with-per-file-rules-for-other-files")
	}
	o := env.Exec(req)
	if o.Crash() {
		return violf("crash", "server died: %s\n%s", o.Describe(), c.Text)
	}
	if o.Resp.Fatal != "" || o.Resp.InitError != "" {
		return violf("inconclusive", "executor: %s %s", o.Resp.Fatal, o.Resp.InitError)
	}
	wanted := map[int]bool{}
	for _, t := range c20Types {
		wanted[t] = true
	}
	got := map[c20Key]int{}
	gotMsg := map[c20Key]string{}
	var got5 []int // start offsets of the type-5 reports
	for _, ds := range harness.FoldDiags(o.Resp.Pushes, 1<<30) {
		for _, d := range ds {
			if d.Type == 1 {
				return violf("inconclusive", "syntax diagnostic on a generated file: %s", d.Message)
			}
			if !wanted[d.Type] && c.Config == 1 {
				continue // with a luahelper.json the server enables every check itself; only the pattern checks are compared
			}
			if !wanted[d.Type] {
				return violf("other-type", "diagnostic of type %d although it is switched off: %s", d.Type, d.Message)
			}
			if d.Type == 5 {
				off, _ := refmodel.OffsetOf(c.Text, d.SL, d.SC)
				got5 = append(got5, off)
				continue
			}
			k := c20Key{d.Type, d.SL}
			got[k]++
			gotMsg[k] = d.Message
		}
	}
	hard := map[c20Key]int{}
	soft := map[c20Key]int{}
	why := map[c20Key]string{}
	instances := map[int]int{}
	var hits5 []reflua.PatternHit
	for _, h := range reflua.FindPatterns(res) {
		if h.Type == 5 {
			hits5 = append(hits5, h)
			if !h.Soft {
				instances[5]++
			}
			continue
		}
		line, _ := refmodel.PosOf(c.Text, h.Off)
		k := c20Key{h.Type, line}
		why[k] = h.Why
		if h.Soft {
			soft[k]++
		} else {
			hard[k]++
			instances[h.Type]++
		}
	}
	var keys []c20Key
	for k := range hard {
		keys = append(keys, k)
	}
	for k := range got {
		if _, ok := hard[k]; !ok {
			keys = append(keys, k)
		}
	}
	sort.Slice(keys, func(i, j int) bool { return fmt.Sprint(keys[i]) < fmt.Sprint(keys[j]) })
	lines := refmodel.Lines(c.Text)
	lineText := func(l int) string {
		if l < 0 || l >= len(lines) {
			return "?"
		}
		return c.Text[lines[l].Start:lines[l].End]
	}
	for _, k := range keys {
		g, h, s := got[k], hard[k], soft[k]
		if g < h {
			return violf(fmt.Sprintf("missing-%d", k.Type), "line %d `%s`: %d instance(s) of the documented pattern for check %d (%s) but %d report(s)\n%s", k.Line, lineText(k.Line), h, k.Type, why[k], g, c.Text)
		}
		if g > h+s {
			return violf(fmt.Sprintf("extra-%d", k.Type), "line %d `%s`: %d report(s) of check %d (%s) but the pattern occurs %d time(s) there (+%d unspecified shapes)\n%s", k.Line, lineText(k.Line), g, k.Type, gotMsg[k], h, s, c.Text)
		}
	}
	// check 5: a report may sit at the first or at the repeated key; match reports to the innermost
	// table constructor that contains them
	used := make([]bool, len(hits5))
	for _, off := range got5 {
		best := -1
		for i, h := range hits5 {
			if used[i] || off < h.RegionOff || off >= h.RegionEnd {
				continue
			}
			if best < 0 || (h.RegionEnd-h.RegionOff) < (hits5[best].RegionEnd-hits5[best].RegionOff) ||
				((h.RegionEnd-h.RegionOff) == (hits5[best].RegionEnd-hits5[best].RegionOff) && !h.Soft && hits5[best].Soft) {
				best = i
			}
		}
		if best < 0 {
			l, _ := refmodel.PosOf(c.Text, off)
			return violf("extra-5", "line %d `%s`: a duplicate-key report (check 5) where no table constructor has a repeated key\n%s", l, lineText(l), c.Text)
		}
		used[best] = true
	}
	for i, h := range hits5 {
		if !h.Soft && !used[i] {
			l, _ := refmodel.PosOf(c.Text, h.Off)
			return violf("missing-5", "line %d `%s`: %s in a table constructor but no duplicate-key report (check 5) for it\n%s", l, lineText(l), h.Why, c.Text)
		}
	}
	st := env.Stats
	nt := false
	for t, n := range instances {
		st.ClassN(fmt.Sprintf("instances-%d", t), n)
		if n > 0 {
			nt = true
		}
	}
	nsoft := 0
	for _, n := range soft {
		nsoft += n
	}
	st.mu.Lock()
	st.DontCare += nsoft
	st.mu.Unlock()
	if nt && st.NT(c.Text) {
		st.Class("nontrivial")
		st.Sample(3, map[string]interface{}{"text": c.Text, "expected": instances})
	}
	return nil
}

func TestC20(t *testing.T) { runProp(t, "C20", genC20, checkC20) }
