package props

import (
	"encoding/json"
	"fmt"
	"strings"
	"testing"

	"pgregory.net/rapid"

	"verif/harness"
	"verif/proto"
	"verif/reflua"
	"verif/refmodel"
)

// C13 — hover shows the right symbol and its documentation comment verbatim.

type C13Decl struct {
	Name     string   `json:"name"`
	Kind     string   `json:"kind"` // local | global | gfunc | lfunc | member-func | member-method | member-var
	Local    bool     `json:"local"`
	Literal  string   `json:"literal,omitempty"` // literal initialiser as written (integers and strings only)
	Params   []string `json:"params,omitempty"`
	Vararg   bool     `json:"vararg,omitempty"` // the parameter list ends with `...`
	Comment  []string `json:"comment"`          // expected documentation lines (nil = none)
	UseOff   int      `json:"useOff"`           // byte offset of a use of the name (hover position)
	Alphabet string   `json:"alphabet"`
	AliasOf  string   `json:"aliasOf,omitempty"` // alias: the expression it is initialised with
	ViaSelf  bool     `json:"viaSelf,omitempty"` // the use is `self.NAME` inside a colon method of the member's table
}

type C13Case struct {
	Text  string    `json:"text"`
	Decls []C13Decl `json:"decls"`
	// Shift: after didOpen the client inserts this many lines at the top without saving (didChange);
	// hover is asked in the edited buffer
	Shift int `json:"shift,omitempty"`
}

func init() { register("C13", checkC13) }

var c13Words = map[string][]string{
	"ascii":  {"the counter", "returns x + 1", "TODO: fix", "a, b; c", "value (in ms)", "x"},
	"latin2": {"café crème", "привет мир", "größe über", "ñandú", "Ελληνικά"},
	"cjk":    {"中文注释", "日本語のコメント", "变量 的 说明", "한국어"},
	"astral": {"rocket 🚀 launch", "𝒳 marks", "😀", "done ✅ 🎉"},
	"mixed":  {"é 中 😀", "mix ж 文 🚀", "a é b"},
}

func genC13(t *rapid.T) C13Case {
	var c C13Case
	var b strings.Builder
	alphabets := []string{"ascii", "cjk", "astral"}
	if !gate("c13-two-byte-utf8") {
		alphabets = append(alphabets, "latin2", "mixed")
	}
	n := rapid.IntRange(1, 7).Draw(t, "ndecls")
	var uses []int // indices into c.Decls
	needTable, needInner := false, false
	for i := 0; i < n; i++ {
		d := C13Decl{Name: fmt.Sprintf("nm%d", i+1)}
		d.Kind = rapid.SampledFrom([]string{"local", "global", "gfunc", "lfunc", "member-func", "member-method", "member-var", "inner-var", "alias"}).Draw(t, "kind")
		if d.Kind == "alias" && i == 0 {
			d.Kind = "local"
		}
		d.Alphabet = rapid.SampledFrom(alphabets).Draw(t, "alphabet")
		if (strings.HasPrefix(d.Kind, "member-") || d.Kind == "inner-var") && !needTable {
			needTable = true
			b.WriteString("local tbl = {}\n\n")
		}
		if d.Kind == "inner-var" && !needInner {
			needInner = true
			b.WriteString("tbl.inner = {}\n\n")
		}
		text := func() string { return rapid.SampledFrom(c13Words[d.Alphabet]).Draw(t, "ctext") }
		// comment placement
		place := rapid.SampledFrom([]string{"none", "trailing", "leading", "both", "separated"}).Draw(t, "place")
		var leading []string
		trailing := ""
		switch place {
		case "trailing":
			trailing = text()
		case "leading", "both", "separated":
			k := rapid.IntRange(1, 3).Draw(t, "nlead")
			for j := 0; j < k; j++ {
				leading = append(leading, text())
			}
			if place == "both" {
				trailing = text()
			}
		}
		for _, l := range leading {
			b.WriteString("-- " + l + "\n")
		}
		if place == "separated" {
			b.WriteString("\n")
		}
		switch d.Kind {
		case "alias":
			// initialised with a plain reference to an earlier declaration
			tgt := c.Decls[rapid.IntRange(0, i-1).Draw(t, "aliasOf")]
			d.AliasOf = tgt.Name
			if strings.HasPrefix(tgt.Kind, "member-") {
				d.AliasOf = "tbl." + tgt.Name
			}
			if tgt.Kind == "inner-var" {
				d.AliasOf = "tbl.inner." + tgt.Name
			}
		case "local", "global", "member-var", "inner-var":
			if rapid.Bool().Draw(t, "strLit") {
				d.Literal = fmt.Sprintf("\"v%d\"", rapid.IntRange(0, 99).Draw(t, "sval"))
			} else {
				d.Literal = fmt.Sprint(rapid.IntRange(0, 9999).Draw(t, "ival"))
			}
		default:
			np := rapid.IntRange(0, 3).Draw(t, "nparams")
			for j := 0; j < np; j++ {
				d.Params = append(d.Params, fmt.Sprintf("p%d_%d", i+1, j+1))
			}
			d.Vararg = rapid.IntRange(0, 3).Draw(t, "vararg") == 0
		}
		ps := strings.Join(d.Params, ", ")
		if d.Vararg {
			if ps != "" {
				ps += ", "
			}
			ps += "..."
		}
		line := ""
		switch d.Kind {
		case "alias":
			d.Local = true
			line = "local " + d.Name + " = " + d.AliasOf
		case "local":
			d.Local = true
			line = "local " + d.Name + " = " + d.Literal
		case "global":
			line = d.Name + " = " + d.Literal
		case "gfunc":
			line = "function " + d.Name + "(" + ps + ") end"
		case "lfunc":
			d.Local = true
			line = "local function " + d.Name + "(" + ps + ") end"
		case "member-func":
			line = "function tbl." + d.Name + "(" + ps + ") end"
		case "member-method":
			line = "function tbl:" + d.Name + "(" + ps + ") end"
		case "member-var":
			line = "tbl." + d.Name + " = " + d.Literal
		case "inner-var":
			line = "tbl.inner." + d.Name + " = " + d.Literal
		}
		b.WriteString(line)
		if trailing != "" {
			b.WriteString(" -- " + trailing)
		}
		// the next declaration (with its comments) follows directly or after a blank line
		if rapid.IntRange(0, 2).Draw(t, "adjacent") == 0 {
			b.WriteString("\n")
		} else {
			b.WriteString("\n\n")
		}
		switch {
		case trailing != "":
			d.Comment = []string{trailing}
		case place == "leading":
			d.Comment = leading
		default:
			d.Comment = nil
		}
		c.Decls = append(c.Decls, d)
		uses = append(uses, i)
	}
	// uses
	for _, i := range uses {
		d := &c.Decls[i]
		if (d.Kind == "member-var" || d.Kind == "inner-var") && rapid.Bool().Draw(t, "useThroughSelf") {
			// the member is read through `self` inside a colon method of its table (plain or dotted receiver)
			recv := "tbl"
			if d.Kind == "inner-var" {
				recv = "tbl.inner"
			}
			b.WriteString(fmt.Sprintf("function %s:use%d()\n  print(self.", recv, i))
			d.UseOff = b.Len()
			d.ViaSelf = true
			b.WriteString(d.Name + ")\nend\n")
			continue
		}
		b.WriteString("print(")
		if strings.HasPrefix(d.Kind, "member-") {
			b.WriteString("tbl.")
		}
		if d.Kind == "inner-var" {
			b.WriteString("tbl.inner.")
		}
		d.UseOff = b.Len()
		b.WriteString(d.Name + ")\n")
	}
	c.Text = b.String()
	if rapid.IntRange(0, 3).Draw(t, "unsavedEdit") == 0 {
		c.Shift = rapid.IntRange(1, 3).Draw(t, "shiftLines")
	}
	return c
}

func checkC13(c C13Case, env *Env) *Violation {
	if res := reflua.Parse(c.Text); res.Verdict != reflua.Valid {
		return violf("inconclusive", "generated file not valid: %v", res.Err)
	}
	req := &proto.Request{Cmd: "session", Files: []proto.File{{Path: "main.lua", Data: []byte(c.Text)}}, InitOptions: harness.J(harness.Flags(1))}
	req.Steps = []proto.Step{harness.DidOpen("main.lua", c.Text)}
	cur, delta := c.Text, 0
	if c.Shift > 0 {
		pre := strings.Repeat("local pad = 0 -- padding\n", c.Shift)
		cur, delta = pre+c.Text, len(pre)
		req.Steps = append(req.Steps, harness.DidChangeFull("main.lua", 2, cur))
		env.Stats.Class("hover-in-unsaved-buffer")
	}
	first := len(req.Steps)
	for _, d := range c.Decls {
		l, ch := refmodel.PosOf(cur, d.UseOff+delta)
		req.Steps = append(req.Steps, harness.Call("textDocument/hover", harness.TDPos("main.lua", l, ch)))
	}
	o := env.Exec(req)
	if o.Crash() {
		return violf("crash", "server died: %s\n%s", o.Describe(), c.Text)
	}
	if o.Resp.Fatal != "" || o.Resp.InitError != "" {
		return violf("inconclusive", "executor: %s %s", o.Resp.Fatal, o.Resp.InitError)
	}
	nt := false
	for i, d := range c.Decls {
		r := harness.ResultOf(o.Resp, first+i)
		if r == nil || r.Error != "" {
			return violf("error", "hover failed for %s", d.Name)
		}
		var h hoverResp
		if string(r.Result) == "null" || json.Unmarshal(r.Result, &h) != nil {
			return violf("no-hover", "hover on a use of %s %q returned nothing\n%s", d.Kind, d.Name, c.Text)
		}
		env.Stats.mu.Lock()
		env.Stats.Queries++
		env.Stats.mu.Unlock()
		v := h.Contents.Value
		label, ok := hoverLabel(r.Result)
		if !ok {
			return violf("no-label", "hover on %q has no label: %q", d.Name, v)
		}
		if !symbolNames(label, d.Name) {
			return violf("label-name", "hover label %q does not contain the identifier %q\n%s", label, d.Name, c.Text)
		}
		if strings.HasPrefix(label, "local") != d.Local {
			return violf("label-local", "hover label %q: the declaration of %q is local=%v\n%s", label, d.Name, d.Local, c.Text)
		}
		if d.Literal != "" && !strings.Contains(label, d.Literal) {
			return violf("label-literal", "hover label %q does not show the literal %s of %q\n%s", label, d.Literal, d.Name, c.Text)
		}
		pos := 0
		for _, p := range d.Params {
			j := strings.Index(label[pos:], p)
			if j < 0 {
				return violf("label-params", "hover label %q does not show the parameters %v of %q in order\n%s", label, d.Params, d.Name, c.Text)
			}
			pos += j + len(p)
		}
		if strings.HasSuffix(d.Kind, "func") || d.Kind == "member-method" {
			// the parameter list as written: NAME(p1[: type], p2[: type], ...) with nothing added or dropped
			want := append([]string{}, d.Params...)
			if d.Kind == "member-method" {
				want = append([]string{"self"}, want...)
			}
			if d.Vararg {
				want = append(want, "...")
			}
			got, ok := labelParams(label, d.Name)
			if !ok || strings.Join(got, ",") != strings.Join(want, ",") {
				return violf("label-signature", "hover label %q shows the parameter list %q of %q, the declaration has %q\n%s", label, got, d.Name, want, c.Text)
			}
			env.Stats.Class(fmt.Sprintf("signature-%dparams-vararg=%v", len(d.Params), d.Vararg))
		}
		// documentation: what follows the label block, minus the file name line
		doc := v
		if k := strings.Index(v, "\n```"); k >= 0 {
			doc = v[k+4:]
		}
		var got []string
		for _, ln := range strings.Split(doc, "\n") {
			if strings.HasPrefix(ln, "\r") { // "\r<file>" line
				continue
			}
			ln = strings.TrimRight(ln, " ")
			if ln == "" || ln == "---" {
				continue
			}
			got = append(got, ln)
		}
		if d.Kind == "alias" && len(d.Comment) == 0 {
			// an uncommented alias: the server shows the documentation of what it refers to; the
			// property speaks of the comment attached to the declaration only — don't care
			env.Stats.mu.Lock()
			env.Stats.DontCare++
			env.Stats.mu.Unlock()
		} else if strings.Join(got, "\n") != strings.Join(d.Comment, "\n") {
			return violf("doc", "hover on %s %q shows the documentation %q, expected the attached comment %q (byte for byte)\n%s", d.Kind, d.Name, got, d.Comment, c.Text)
		}
		env.Stats.Class("decl-" + d.Kind)
		if len(d.Comment) > 0 {
			env.Stats.Class("comment-" + d.Alphabet)
			if d.Alphabet != "ascii" {
				nt = true
			}
		}
	}
	if nt && env.Stats.NT(c.Text) {
		env.Stats.Class("nontrivial")
		env.Stats.Sample(3, c)
	}
	return nil
}

func TestC13(t *testing.T) { runProp(t, "C13", genC13, checkC13) }

// labelParams cuts the parameter names out of "… NAME(p1: any, p2: any, ...) …".
func labelParams(label, name string) ([]string, bool) {
	i := strings.Index(label, name+"(")
	if i < 0 {
		return nil, false
	}
	rest := label[i+len(name)+1:]
	j := strings.Index(rest, ")")
	if j < 0 {
		return nil, false
	}
	out := []string{}
	if strings.TrimSpace(rest[:j]) == "" && !strings.Contains(rest[:j], ",") {
		return out, true
	}
	for _, it := range strings.Split(rest[:j], ",") {
		it = strings.TrimSpace(it)
		if k := strings.Index(it, ":"); k >= 0 {
			it = strings.TrimSpace(it[:k])
		}
		out = append(out, it)
	}
	return out, true
}
