package props

import (
	"encoding/json"
	"fmt"
	"sort"
	"strings"
	"testing"

	"pgregory.net/rapid"

	"verif/harness"
	"verif/luagen"
	"verif/proto"
	"verif/reflua"
	"verif/refmodel"
)

// C09 — results are a function of workspace and configuration, not of scheduling.

type C09Case struct {
	WS Workspace `json:"ws"`
	// Orders: for each repetition a permutation seed for the file creation order, GOMAXPROCS and CPU pinning
	Runs []C09Run `json:"runs"`
	// Events: after the initial analysis, file events arrive in batches (the same batches, in the same
	// order, in every run): a priming didChangeWatchedFiles naming every file as changed (contents
	// unchanged), then one in which the files of Changed really have new contents on disk
	Events *C09Events `json:"events,omitempty"`
	// RefLimit: when > 0 the client sets ReferenceMaxNum to it (workspace/didChangeConfiguration)
	RefLimit int `json:"refLimit,omitempty"`
	// Config: content of a luahelper.json (rules whose file patterns overlap), "" = none
	Config string `json:"config,omitempty"`
}

type C09Events struct {
	Changed []int `json:"changed"` // indices into WS.Files whose disk content gets the extra lines
	Reader  int   `json:"reader"`  // file that reads the globals the changed files now define
	Order   []int `json:"order"`   // order of the events inside the notification (all files)
}

type C09Run struct {
	Perm     []int  `json:"perm"`
	MaxProcs int    `json:"maxProcs"`
	Taskset  string `json:"taskset"`
}

func init() { register("C09", checkC09) }

func genC09(t *rapid.T) C09Case {
	var c C09Case
	o := semGenOpts{MaxFiles: 3, Naming: luagen.NamesMixed, Methods: true, GlobalsRW: true, MaxStats: 8}
	o.NoSameName = true
	o.NoFuncInForBounds = true
	o.NoFuncInTargetIndex = true
	c.WS = genWorkspace(t, o)
	dupGate := gate("c09-dup-winner")
	if dupGate {
		// a global may have defining assignments in one file only: rename the shared pool per file
		for i := range c.WS.Files {
			if i == 0 {
				continue
			}
			txt := c.WS.Files[i].Text
			res, b := reflua.Analyze(txt)
			if res.Verdict != reflua.Valid {
				continue
			}
			// turn the globals this file defines — or adds members to — into file-local globals
			names := map[string]bool{}
			for name := range b.GlobalDefs {
				names[name] = true
			}
			for _, name := range memberWriteBases(res.Chunk, b) {
				names[name] = true
			}
			for name := range names {
				txt = replaceIdent(txt, name, fmt.Sprintf("%s_f%d", name, i))
			}
			c.WS.Files[i].Text = txt
			excluded()
		}
	} else if rapid.Bool().Draw(t, "plantDup") {
		c.WS.Files = append(c.WS.Files, WSFile{Path: "dupa.lua", Text: "function DupFn(a) return a end\nDupVar = 1\n"},
			WSFile{Path: "dupb.lua", Text: "function DupFn(a, b) return a, b end\nDupVar = \"s\"\n"},
			WSFile{Path: "dupuse.lua", Text: "DupFn(1, 2)\nprint(DupVar)\n"})
	}
	if rapid.Bool().Draw(t, "dupBase") {
		// two files with the same base name in two folders, required by the bare name from the root and
		// from inside each folder (equally and differently scored candidates; the choice among them was
		// order dependent until fix ccb4125)
		dirs := rapid.SampledFrom([][2]string{{"da", "db"}, {"a", "b"}, {"lib", "third"}, {"x/y", "x/z"}}).Draw(t, "dupDirs")
		mod := rapid.SampledFrom([]string{"same", "mod", "codec"}).Draw(t, "dupMod")
		body := "local M = {}\nfunction M.hello() end\nreturn M\n"
		use := fmt.Sprintf("local dm = require(\"%s\")\ndm.hello()\nprint(dm)\n", mod)
		c.WS.Files = append(c.WS.Files, WSFile{Path: dirs[0] + "/" + mod + ".lua", Text: body}, WSFile{Path: dirs[1] + "/" + mod + ".lua", Text: body},
			WSFile{Path: "use" + mod + ".lua", Text: use}, WSFile{Path: dirs[0] + "/user0.lua", Text: use}, WSFile{Path: dirs[1] + "/user1.lua", Text: use})
	}
	// configuration rules whose file patterns overlap: two IgnoreFileVars / IgnoreFileErrTypes entries match
	// the same file (patterns are matched as substrings / regular expressions, in a map)
	if rapid.IntRange(0, 3).Draw(t, "overlapRules") == 0 {
		c.WS.Files = append(c.WS.Files, WSFile{Path: "port/gm.lua", Text: "print(IgA, IgB, IgC)\nlocal unusedgm = 1\nlocal tgm = { k = 1, k = 2 }\nprint(tgm)\n"})
		c.Config = `{"BaseDir":"./","ShowWarnFlag":1,"IgnoreFileVars":[{"File":"gm.lua","Vars":["IgA"]},{"File":"port/gm.lua","Vars":["IgB"]},{"File":"port/","Vars":["IgA","IgB"]}],` +
			`"IgnoreFileErrTypes":[{"File":"gm.lua","Types":[4]},{"File":"port/gm","Types":[5]}]}`
	}
	// the same ---@class / ---@alias name declared in several files: the "duplicate annotate type"
	// warnings (type 18) are computed from a project-wide list of the declarations
	if rapid.IntRange(0, 3).Draw(t, "dupClass") == 0 {
		n := rapid.IntRange(2, 5).Draw(t, "dupClassFiles")
		for i := 0; i < n; i++ {
			c.WS.Files = append(c.WS.Files, WSFile{Path: fmt.Sprintf("dupc/decl%d.lua", i),
				Text: fmt.Sprintf("---@class DupCls\n---@field f%d number\nlocal dc%d = {}\n---@alias DupAli number\nprint(dc%d)\n", i, i, i)})
		}
		c.WS.Files = append(c.WS.Files, WSFile{Path: "dupc/use.lua", Text: "---@type DupCls\nlocal du = nil\n---@type DupAli\nlocal da = nil\nprint(du, da)\n"})
	}
	// a function with annotated parameters called with too few arguments from many files: the
	// "fewer arguments than parameters" warning needs the definition's annotation, which the file
	// workers look up lazily in a record they share
	if rapid.IntRange(0, 3).Draw(t, "annotatedCalls") == 0 {
		c.WS.Files = append(c.WS.Files, WSFile{Path: "annf/def.lua", Text: "---@param a number\n---@param b number\n---@param c number\nfunction AnnF(a, b, c)\n  return a, b, c\nend\n" +
			"---@param p number\n---@param q? number\nfunction AnnG(p, q)\n  return p, q\nend\n"})
		n := rapid.IntRange(8, 30).Draw(t, "annCallers")
		for i := 0; i < n; i++ {
			c.WS.Files = append(c.WS.Files, WSFile{Path: fmt.Sprintf("annf/call%02d.lua", i), Text: fmt.Sprintf("AnnF(%d)\nAnnG()\nAnnF(1, 2)\nAnnG(%d)\n", i, i)})
		}
	}
	// a global with more references than the configured answer limit (ReferenceMaxNum, set by a
	// settings change), spread over several files
	if rapid.IntRange(0, 3).Draw(t, "manyRefs") == 0 {
		c.RefLimit = rapid.IntRange(5, 40).Draw(t, "refLimit")
		c.WS.Files = append(c.WS.Files, WSFile{Path: "refs/def.lua", Text: "RefG = 1\n"})
		n := rapid.IntRange(4, 10).Draw(t, "refFiles")
		for i := 0; i < n; i++ {
			c.WS.Files = append(c.WS.Files, WSFile{Path: fmt.Sprintf("refs/use%02d.lua", i), Text: strings.Repeat("print(RefG)\n", rapid.IntRange(3, 12).Draw(t, "refPerFile"))})
		}
	}
	// many symbols: more matches of one workspace/symbol query than the answer's limit (200), spread
	// over several files, so that the cut depends on how the workers' partial results are merged
	if rapid.IntRange(0, 3).Draw(t, "manySymbols") == 0 {
		nf := rapid.IntRange(6, 14).Draw(t, "symFiles")
		per := rapid.IntRange(18, 40).Draw(t, "symPerFile")
		for i := 0; i < nf; i++ {
			var b strings.Builder
			for k := 0; k < per; k++ {
				switch (i + k) % 3 {
				case 0:
					fmt.Fprintf(&b, "Sym%d_%d = %d\n", i, k, k)
				case 1:
					fmt.Fprintf(&b, "function Symf%d_%d() end\n", i, k)
				default:
					fmt.Fprintf(&b, "local symloc%d_%d = %d\nprint(symloc%d_%d)\n", i, k, k, i, k)
				}
			}
			c.WS.Files = append(c.WS.Files, WSFile{Path: fmt.Sprintf("syms/s%02d.lua", i), Text: b.String()})
		}
		c.WS.Files = append(c.WS.Files, WSFile{Path: "syms/exact.lua", Text: "function Sym() end\nfunction sym() end\n"})
	}
	// filler files: more files than NumCPU+2, so the worker pools recycle their goroutines
	nfill := rapid.SampledFrom([]int{0, 3, 20}).Draw(t, "nfill")
	for i := 0; i < nfill; i++ {
		c.WS.Files = append(c.WS.Files, WSFile{Path: fmt.Sprintf("fill/f%02d.lua", i), Text: fmt.Sprintf("Fill%d = %d\nprint(Fill%d)\nlocal unused%d = 1\n", i, i, (i+1)%nfill, i)})
	}
	if len(c.WS.Files) >= 2 && rapid.Bool().Draw(t, "events") {
		ev := &C09Events{}
		nmain := len(c.WS.Files) - nfill
		if nmain < 1 {
			nmain = len(c.WS.Files)
		}
		ev.Changed = []int{rapid.IntRange(0, nmain-1).Draw(t, "evChanged")}
		ev.Reader = rapid.IntRange(0, len(c.WS.Files)-1).Draw(t, "evReader")
		ev.Order = rapid.Permutation(seqInts(len(c.WS.Files))).Draw(t, "evOrder")
		c.Events = ev
	}
	nruns := 6
	if tier() == "thorough" {
		nruns = 16
	}
	for r := 0; r < nruns; r++ {
		run := C09Run{Perm: rapid.Permutation(seqInts(len(c.WS.Files))).Draw(t, "perm"),
			MaxProcs: rapid.SampledFrom([]int{1, 2, 16}).Draw(t, "maxprocs")}
		if rapid.IntRange(0, 2).Draw(t, "pin") == 0 {
			run.Taskset = "0"
		}
		c.Runs = append(c.Runs, run)
	}
	return c
}

func seqInts(n int) []int {
	a := make([]int, n)
	for i := range a {
		a[i] = i
	}
	return a
}

// memberWriteBases: global names X for which the chunk holds `X.y = ...`, `X[k] = ...`,
// `function X.y` or `function X:y` (at any depth).
func memberWriteBases(chunk *reflua.Block, b *reflua.Binding) []string {
	var out []string
	base := func(e reflua.Exp) {
		for {
			ix, ok := e.(*reflua.IndexExp)
			if !ok {
				break
			}
			e = ix.Obj
		}
		if ne, ok := e.(*reflua.NameExp); ok {
			if o := b.ByName[ne.Name]; o != nil && o.Decl == nil {
				out = append(out, ne.Name.Text)
			}
		}
	}
	var walkB func(blk *reflua.Block)
	var walkE func(e reflua.Exp)
	walkE = func(e reflua.Exp) {
		switch t := e.(type) {
		case *reflua.FuncExp:
			walkB(t.Body)
		case *reflua.BinExp:
			walkE(t.L)
			walkE(t.R)
		case *reflua.UnExp:
			walkE(t.X)
		case *reflua.ParenExp:
			walkE(t.X)
		case *reflua.IndexExp:
			walkE(t.Obj)
			walkE(t.Key)
		case *reflua.CallExp:
			walkE(t.Fn)
			for _, a := range t.Args {
				walkE(a)
			}
		case *reflua.TableExp:
			for _, f := range t.Fields {
				walkE(f.KeyExp)
				walkE(f.Value)
			}
		}
	}
	walkB = func(blk *reflua.Block) {
		if blk == nil {
			return
		}
		for _, s := range blk.Stats {
			switch t := s.(type) {
			case *reflua.AssignStat:
				for _, tg := range t.Targets {
					if _, ok := tg.(*reflua.IndexExp); ok {
						base(tg)
					}
					walkE(tg)
				}
				for _, e := range t.Exps {
					walkE(e)
				}
			case *reflua.FuncStat:
				if len(t.Fields) > 0 || t.Method != nil {
					if o := b.ByName[t.Base]; o != nil && o.Decl == nil {
						out = append(out, t.Base.Text)
					}
				}
				walkB(t.Func.Body)
			case *reflua.LocalStat:
				for _, e := range t.Exps {
					walkE(e)
				}
			case *reflua.LocalFuncStat:
				walkB(t.Func.Body)
			case *reflua.CallStat:
				walkE(t.Call)
			case *reflua.DoStat:
				walkB(t.Body)
			case *reflua.WhileStat:
				walkE(t.Cond)
				walkB(t.Body)
			case *reflua.RepeatStat:
				walkB(t.Body)
				walkE(t.Cond)
			case *reflua.IfStat:
				for i, c := range t.Conds {
					walkE(c)
					walkB(t.Blocks[i])
				}
				walkB(t.Else)
			case *reflua.NumForStat:
				walkE(t.Start)
				walkE(t.Limit)
				walkE(t.Step)
				walkB(t.Body)
			case *reflua.GenForStat:
				for _, e := range t.Exps {
					walkE(e)
				}
				walkB(t.Body)
			case *reflua.ReturnStat:
				for _, e := range t.Exps {
					walkE(e)
				}
			}
		}
	}
	walkB(chunk)
	return out
}

// replaceIdent replaces whole-identifier occurrences of name.
func replaceIdent(text, name, with string) string {
	toks, _, err := reflua.Tokenize(text)
	if err != nil {
		return text
	}
	var b strings.Builder
	prev := 0
	for _, tk := range toks {
		if tk.Kind == reflua.TName && tk.Text == name {
			b.WriteString(text[prev:tk.Off])
			b.WriteString(with)
			prev = tk.End
		}
	}
	b.WriteString(text[prev:])
	return b.String()
}

// normalise a JSON answer: arrays of objects are sorted by their serialisation; completion `data`
// indices are dropped.
func normJSON(raw json.RawMessage) string {
	var v interface{}
	if json.Unmarshal(raw, &v) != nil {
		return string(raw)
	}
	v = normValue(v)
	b, _ := json.Marshal(v)
	return string(b)
}

func normValue(v interface{}) interface{} {
	switch x := v.(type) {
	case map[string]interface{}:
		delete(x, "data")
		for k, e := range x {
			x[k] = normValue(e)
		}
		return x
	case []interface{}:
		strs := make([]string, len(x))
		for i, e := range x {
			x[i] = normValue(e)
			b, _ := json.Marshal(x[i])
			strs[i] = string(b)
		}
		sort.Strings(strs)
		out := make([]interface{}, len(strs))
		for i, s := range strs {
			out[i] = json.RawMessage(s)
		}
		return out
	}
	return v
}

func checkC09(c C09Case, env *Env) *Violation {
	// fixed query sweep
	type q struct {
		method string
		params json.RawMessage
		desc   string
	}
	var qs []q
	crossFile := false
	defsOf := map[string]map[int]bool{}
	for fi, f := range c.WS.Files {
		res, b := reflua.Analyze(f.Text)
		if res.Verdict != reflua.Valid || b == nil {
			continue
		}
		for n := range b.GlobalDefs {
			if defsOf[n] == nil {
				defsOf[n] = map[int]bool{}
			}
			defsOf[n][fi] = true
		}
	}
	for fi, f := range c.WS.Files {
		res, b := reflua.Analyze(f.Text)
		if res.Verdict != reflua.Valid || b == nil || strings.HasPrefix(f.Path, "fill/") && fi%7 != 0 || strings.HasPrefix(f.Path, "syms/") || strings.HasPrefix(f.Path, "annf/call") || strings.HasPrefix(f.Path, "refs/use") {
			continue
		}
		n := 0
		for _, o := range b.Occs {
			if o.Name.Off == o.Name.End || n >= 25 {
				continue
			}
			if o.Decl == nil && o.Kind == reflua.ORead {
				for df := range defsOf[o.Name.Text] {
					if df != fi {
						crossFile = true
					}
				}
			}
			n++
			l, ch := refmodel.PosOf(f.Text, o.Name.Off)
			at := fmt.Sprintf("%s:%d:%d %q", f.Path, l, ch, o.Name.Text)
			qs = append(qs, q{"textDocument/definition", harness.TDPos(f.Path, l, ch), at},
				q{"textDocument/references", refParams(f.Path, l, ch), at},
				q{"textDocument/hover", harness.TDPos(f.Path, l, ch), at})
			if n%5 == 0 {
				qs = append(qs, q{"textDocument/completion", harness.J(harness.M{"textDocument": harness.M{"uri": harness.URI(f.Path)},
					"position": harness.Pos(l, ch+1), "context": harness.M{"triggerKind": 1}}), at})
			}
		}
		// tokens that are not variable occurrences: member names after `.` / `:` and string literals
		// (module strings): definition and hover go through the cross-file resolution there
		isOcc := map[int]bool{}
		for _, o := range b.Occs {
			isOcc[o.Name.Off] = true
		}
		extra := 0
		for ti, tk := range res.Tokens {
			if extra >= 12 {
				break
			}
			member := tk.Kind == reflua.TName && !isOcc[tk.Off] && ti > 0 && (res.Tokens[ti-1].Text == "." || res.Tokens[ti-1].Text == ":")
			if !member && tk.Kind != reflua.TString {
				continue
			}
			extra++
			l, ch := refmodel.PosOf(f.Text, tk.Off+1)
			at := fmt.Sprintf("%s:%d:%d %q", f.Path, l, ch, tk.Text)
			qs = append(qs, q{"textDocument/definition", harness.TDPos(f.Path, l, ch), at}, q{"textDocument/hover", harness.TDPos(f.Path, l, ch), at})
		}
		qs = append(qs, q{"textDocument/documentSymbol", harness.J(harness.M{"textDocument": harness.M{"uri": harness.URI(f.Path)}}), f.Path})
	}
	qs = append(qs, q{"workspace/symbol", harness.J(harness.M{"query": "Sym"}), "query Sym"}, q{"workspace/symbol", harness.J(harness.M{"query": "sym"}), "query sym"},
		q{"workspace/symbol", harness.J(harness.M{"query": ""}), "empty query"})
	qs = append(qs, q{"workspace/symbol", harness.J(harness.M{"query": "G"}), "query G"}, q{"workspace/symbol", harness.J(harness.M{"query": "Dup"}), "query Dup"})

	type outcome struct {
		diags   string
		answers []string
	}
	var first *outcome
	var firstRun C09Run
	for ri, run := range c.Runs {
		req := &proto.Request{Cmd: "session", InitOptions: harness.J(harness.AllOn()), MaxProcs: run.MaxProcs}
		if c.Config != "" {
			req.Files = append(req.Files, proto.File{Path: "luahelper.json", Data: []byte(c.Config)})
		}
		for _, k := range run.Perm {
			if k < len(c.WS.Files) {
				f := c.WS.Files[k]
				req.Files = append(req.Files, proto.File{Path: f.Path, Data: []byte(f.Text)})
			}
		}
		if c.RefLimit > 0 {
			// real clients send the settings twice at start-up; the server ignores the first
			warn := harness.AllOn()
			delete(warn, "client")
			set := harness.J(harness.M{"settings": harness.M{"luahelper": harness.M{"base": harness.M{"ReferenceMaxNum": c.RefLimit, "ReferenceIncudeDefine": true}, "Warn": warn}}})
			req.Steps = append(req.Steps, proto.Step{Op: "notify", Method: "workspace/didChangeConfiguration", Params: set},
				proto.Step{Op: "notify", Method: "workspace/didChangeConfiguration", Params: set})
		}
		evStep, evQBase := -1, -1
		if c.Events != nil {
			var all [][2]interface{}
			for _, k := range c.Events.Order {
				all = append(all, [2]interface{}{c.WS.Files[k].Path, 2})
			}
			req.Steps = append(req.Steps, harness.Watched(all...))
			newText := map[int]string{}
			for _, k := range c.Events.Changed {
				newText[k] = c.WS.Files[k].Text + fmt.Sprintf("\nEvtG%d = 1\n", k)
			}
			rd := c.Events.Reader
			if _, ok := newText[rd]; !ok {
				newText[rd] = c.WS.Files[rd].Text
			}
			for _, k := range c.Events.Changed {
				newText[rd] += fmt.Sprintf("\nprint ( EvtG%d )\n", k)
			}
			for _, k := range c.Events.Order {
				if txt, ok := newText[k]; ok {
					req.Steps = append(req.Steps, proto.Step{Op: "write", Path: c.WS.Files[k].Path, Data: []byte(txt)})
				}
			}
			req.Steps = append(req.Steps, harness.Watched(all...))
			evStep = len(req.Steps) - 1
			for k, f := range c.WS.Files {
				txt := f.Text
				if nt, ok := newText[k]; ok {
					txt = nt
				}
				req.Steps = append(req.Steps, harness.DidOpen(f.Path, txt))
			}
			// where the reader uses the new global of the first changed file
			rtxt := newText[rd]
			off := strings.LastIndex(rtxt, "EvtG")
			l, ch := refmodel.PosOf(rtxt, off)
			evQ := []proto.Step{harness.Call("textDocument/definition", harness.TDPos(c.WS.Files[rd].Path, l, ch)),
				harness.Call("textDocument/hover", harness.TDPos(c.WS.Files[rd].Path, l, ch)),
				harness.Call("textDocument/references", refParams(c.WS.Files[rd].Path, l, ch))}
			evQBase = len(req.Steps)
			req.Steps = append(req.Steps, evQ...)
		} else {
			req.Steps = append(req.Steps, c.WS.openAll()...)
		}
		base := len(req.Steps)
		for _, x := range qs {
			req.Steps = append(req.Steps, harness.Call(x.method, x.params))
		}
		var envs []string
		if run.Taskset != "" {
			envs = append(envs, "LHEXEC_TASKSET="+run.Taskset)
		}
		o := pool.ExecFresh(req, envs...)
		if o.Crash() {
			return violf("crash", "server died: %s\n%s", o.Describe(), showWS(&c.WS))
		}
		if o.Resp.Fatal != "" || o.Resp.InitError != "" {
			return violf("inconclusive", "executor: %s %s", o.Resp.Fatal, o.Resp.InitError)
		}
		out := &outcome{}
		var ds []string
		for k, n := range viewOf(o.Resp.Pushes, 1<<30) {
			ds = append(ds, fmt.Sprintf("%dx %s", n, k))
		}
		sort.Strings(ds)
		out.diags = strings.Join(ds, "\n")
		if evStep >= 0 {
			var es []string
			for k, n := range viewOf(o.Resp.Pushes, evStep) {
				es = append(es, fmt.Sprintf("after-events %dx %s", n, k))
			}
			sort.Strings(es)
			out.diags += "\n" + strings.Join(es, "\n")
		}
		for i := range qs {
			r := harness.ResultOf(o.Resp, base+i)
			if r == nil {
				return violf("inconclusive", "missing result")
			}
			out.answers = append(out.answers, normJSON(r.Result)+r.Error)
		}
		if evQBase >= 0 {
			for i := 0; i < 3; i++ {
				if r := harness.ResultOf(o.Resp, evQBase+i); r != nil {
					out.diags += fmt.Sprintf("\nafter-events query %d: %s%s", i, normJSON(r.Result), r.Error)
				}
			}
		}
		if first == nil {
			first, firstRun = out, run
			continue
		}
		if out.diags != first.diags {
			return violf("diags-differ", "two analyses of the same workspace and configuration publish different diagnostics.\nrun 0 (GOMAXPROCS=%d pin=%q order=%v):\n%s\nrun %d (GOMAXPROCS=%d pin=%q order=%v):\n%s\n%s",
				firstRun.MaxProcs, firstRun.Taskset, firstRun.Perm, diffLines(first.diags, out.diags), ri, run.MaxProcs, run.Taskset, run.Perm, diffLines(out.diags, first.diags), showWS(&c.WS))
		}
		for i := range qs {
			if out.answers[i] != first.answers[i] {
				return violf("answer-differs", "two runs on the same workspace answer %s at %s differently.\nrun 0 (GOMAXPROCS=%d pin=%q): %s\nrun %d (GOMAXPROCS=%d pin=%q): %s\n%s",
					qs[i].method, qs[i].desc, firstRun.MaxProcs, firstRun.Taskset, clip(first.answers[i], 600), ri, run.MaxProcs, run.Taskset, clip(out.answers[i], 600), showWS(&c.WS))
			}
		}
	}
	env.Stats.mu.Lock()
	env.Stats.Queries += len(qs) * len(c.Runs)
	env.Stats.mu.Unlock()
	env.Stats.ClassN("runs", len(c.Runs))
	env.Stats.Class(fmt.Sprintf("files-%d+", len(c.WS.Files)/10*10))
	if crossFile && env.Stats.NT(showWS(&c.WS)) {
		env.Stats.Class("nontrivial")
		env.Stats.Sample(2, map[string]interface{}{"files": len(c.WS.Files), "first": c.WS.Files[0], "queries": len(qs), "runs": c.Runs})
	}
	return nil
}

func clip(s string, n int) string {
	if len(s) > n {
		return s[:n] + "…"
	}
	return s
}

func diffLines(a, b string) string {
	bs := map[string]bool{}
	for _, l := range strings.Split(b, "\n") {
		bs[l] = true
	}
	var out []string
	for _, l := range strings.Split(a, "\n") {
		if !bs[l] {
			out = append(out, "  only here: "+l)
		}
	}
	if len(out) == 0 {
		return "  (a subset of the other run)"
	}
	return strings.Join(out, "\n")
}

func TestC09(t *testing.T) { runProp(t, "C09", genC09, checkC09) }
