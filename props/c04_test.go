package props

import (
	"encoding/json"
	"fmt"
	"regexp"
	"strings"
	"testing"

	"pgregory.net/rapid"

	"verif/harness"
	"verif/luagen"
	"verif/proto"
	"verif/reflua"
	"verif/refmodel"
)

// C04 — every reported range lies in the document and covers exactly the thing it names.

type C04Case struct {
	WS     Workspace `json:"ws"`
	Origin string    `json:"origin"`
}

func init() { register("C04", checkC04) }

func genC04(t *rapid.T) C04Case {
	n := rapid.IntRange(1, 2).Draw(t, "nfiles")
	var ws Workspace
	origin := "valid"
	for i := 0; i < n; i++ {
		cfg := luagen.DefaultConfig()
		cfg.Naming = luagen.NamesMixed
		cfg.Methods = true
		cfg.Goto = true
		cfg.RichLits = true
		cfg.StringCalls = true
		cfg.BlockReturn = true
		cfg.Attribs = true
		cfg.DupParams = true
		cfg.Bitops = true
		cfg.MaxStats = 8
		cfg.Prefix = fmt.Sprintf("f%d", i)
		cfg.NoSameNameInit = gate("c05-same-name-init")
		cfg.NoFuncInForBounds = gate("c05-func-in-for-bounds")
		cfg.NoFuncInTargetIndex = gate("c05-func-in-target")
		toks := luagen.Program(t, cfg)
		if i == 0 && rapid.IntRange(0, 4).Draw(t, "mutate") == 0 {
			toks, origin = luagen.Mutate(t, toks)
		}
		lay := luagen.LayoutCfg{Wild: true, EOLs: []string{"\n", "\r\n"}, Comments: true, NonASCII: true, Astral: !gate("c04-astral"), Shebang: false}
		if !gate("c04-cr") {
			lay.EOLs = append(lay.EOLs, "\r")
		}
		src, _ := luagen.Render(t, toks, lay)
		if origin == "valid" && rapid.Bool().Draw(t, "annotations") {
			// annotation comments whose names are entities too: classes, an alias, generics with and
			// without a constraint, and their uses in @param / @return / @type lines
			if !strings.HasSuffix(src, "\n") && !strings.HasSuffix(src, "\r") {
				src += "\n"
			}
			src += fmt.Sprintf("---@class AnnCls%d\n---@field wheels number\n---@class AnnSub%d : AnnCls%d\n---@alias AnnAli%d number\n"+
				"---@generic TG%d : AnnCls%d, KG%d\n---@param vehicle TG%d\n---@param key KG%d\n---@param load AnnAli%d\n---@return TG%d\n"+
				"local function anndrive%d(vehicle, key, load)\n  return vehicle\nend\n---@type AnnSub%d\nlocal annv%d = nil\nprint(anndrive%d, annv%d)\n",
				i, i, i, i, i, i, i, i, i, i, i, i, i, i, i, i)
		}
		ws.Files = append(ws.Files, WSFile{Path: wsFileNames[i], Text: src})
	}
	if rapid.Bool().Draw(t, "moduleScenario") {
		mod, use := genC04Module(t)
		ws.Files = append(ws.Files, WSFile{Path: "c04mod.lua", Text: mod}, WSFile{Path: "c04use.lua", Text: use})
	}
	return C04Case{WS: ws, Origin: origin}
}

// genC04Module writes a module returning a table with members, and a file that requires it and uses
// the members through the handle; filler lines make the two files differ in length and layout.
func genC04Module(t *rapid.T) (mod, use string) {
	filler := func(b *strings.Builder, label string) {
		for k := rapid.IntRange(0, 4).Draw(t, label); k > 0; k-- {
			b.WriteString(rapid.SampledFrom([]string{"\n", "-- note\n", "local _ = 0\n", "print(\"x\")\n"}).Draw(t, "fillerLine"))
		}
	}
	var m, u strings.Builder
	filler(&m, "modHead")
	m.WriteString("local M = {}\n")
	n := rapid.IntRange(1, 4).Draw(t, "nmembers")
	var calls []string
	for i := 0; i < n; i++ {
		filler(&m, "modGap")
		nm := fmt.Sprintf("mem%d", i+1)
		switch rapid.IntRange(0, 3).Draw(t, "memberKind") {
		case 0:
			m.WriteString("function M." + nm + "(a)\n  return a\nend\n")
			calls = append(calls, "H."+nm+"(1)")
		case 1:
			m.WriteString("function M:" + nm + "(a)\n  return self, a\nend\n")
			calls = append(calls, "H:"+nm+"(1)")
		case 2:
			m.WriteString("M." + nm + " = function(a) return a end\n")
			calls = append(calls, "H."+nm+"(1)")
		default:
			m.WriteString("M." + nm + " = " + fmt.Sprint(i) + "\n")
			calls = append(calls, "print(H."+nm+")")
		}
	}
	xs := rapid.IntRange(0, 3).Draw(t, "extraShapes")
	if xs&1 != 0 {
		// a global table declared in the module file, given a member in the other file
		m.WriteString("c04gt = {}\n")
	}
	m.WriteString("return M\n")
	filler(&u, "useHead")
	if xs&1 != 0 {
		u.WriteString("c04gt.gmem = 1\nprint(c04gt.gmem)\n")
	}
	if xs&2 != 0 {
		// a read of a member the constructor does not have
		u.WriteString("local lt = { have = 1 }\nprint(lt.nope, lt.have)\n")
	}
	u.WriteString("local H = require(\"c04mod\")\n")
	for k := rapid.IntRange(1, 5).Draw(t, "nuses"); k > 0; k-- {
		filler(&u, "useGap")
		call := calls[rapid.IntRange(0, len(calls)-1).Draw(t, "use")]
		if rapid.IntRange(0, 3).Draw(t, "inFunc") == 0 {
			u.WriteString("local function w" + fmt.Sprint(k) + "()\n  " + call + "\nend\n")
		} else {
			u.WriteString(call + "\n")
		}
	}
	return m.String(), u.String()
}

var (
	reNotDefine = regexp.MustCompile(`var not define: (?:_G\.)?([A-Za-z_][A-Za-z0-9_]*)`)
	reAnnName   = regexp.MustCompile(`\b(AnnCls|AnnSub|AnnAli|TG|KG)\d+\b`)
	reDupParam  = regexp.MustCompile(`duplicate var:'([A-Za-z_][A-Za-z0-9_]*)'`)
	reNotUsed   = regexp.MustCompile(`^\[Warn type:\d+\], ([A-Za-z_][A-Za-z0-9_]*) declared and not used`)
)

// rangeProblem checks that a range lies inside the text; returns "" if fine.
func rangeProblem(text string, sl, sc, el, ec int) string {
	ls := refmodel.Lines(text)
	if sl < 0 || sc < 0 || el < 0 || ec < 0 {
		return "negative component"
	}
	if sl > el || (sl == el && sc > ec) {
		return "start after end"
	}
	if el >= len(ls) {
		return fmt.Sprintf("line %d beyond the last line %d", el, len(ls)-1)
	}
	if w := refmodel.U16Len(text[ls[sl].Start:ls[sl].End]); sc > w {
		return fmt.Sprintf("start character %d beyond the length %d of line %d", sc, w, sl)
	}
	if w := refmodel.U16Len(text[ls[el].Start:ls[el].End]); ec > w {
		return fmt.Sprintf("end character %d beyond the length %d of line %d", ec, w, el)
	}
	if _, ok := refmodel.OffsetOf(text, sl, sc); !ok {
		return "start inside a surrogate pair"
	}
	if _, ok := refmodel.OffsetOf(text, el, ec); !ok {
		return "end inside a surrogate pair"
	}
	return ""
}

func slice(text string, sl, sc, el, ec int) string {
	s, ok1 := refmodel.OffsetOf(text, sl, sc)
	e, ok2 := refmodel.OffsetOf(text, el, ec)
	if !ok1 || !ok2 || s > e {
		return ""
	}
	return text[s:e]
}

func checkC04(c C04Case, env *Env) *Violation {
	texts := map[string]string{}
	for _, f := range c.WS.Files {
		texts[f.Path] = f.Text
	}
	type fileInfo struct {
		res  *reflua.Result
		bind *reflua.Binding
	}
	infos := make([]fileInfo, len(c.WS.Files))
	anyInvalid := false
	for i, f := range c.WS.Files {
		res, b := reflua.Analyze(f.Text)
		infos[i] = fileInfo{res, b}
		if res.Verdict == reflua.Invalid {
			anyInvalid = true
		}
	}
	req := &proto.Request{Cmd: "session", Files: c.WS.protoFiles(), InitOptions: harness.J(harness.AllOn())}
	req.Steps = c.WS.openAll()
	type q struct {
		method string
		file   int
		name   string
		at     Loc
		step   int
	}
	var qs []q
	ntOcc := 0
	for fi, inf := range infos {
		f := c.WS.Files[fi]
		// identifier occurrences: from the binder for valid files, from the token stream otherwise
		type ident struct {
			name  string
			sp    reflua.Span
			isVar bool
		}
		var ids []ident
		if inf.bind != nil {
			for _, o := range inf.bind.Occs {
				if o.Name.Off == o.Name.End || dcOcc(o) || (o.Decl != nil && o.Decl.Kind == reflua.DSelf) {
					continue
				}
				if (gate("c05-bracket-quote") && kfBracketQuote(f.Text, o.Name.Off)) || (gate("c05-glued-bracket") && kfGluedBracket(f.Text, o.Name.Off)) {
					excludedIn(env)
					continue
				}
				ids = append(ids, ident{o.Name.Text, o.Name.Span, true})
			}
		}
		if f.Path == "c04mod.lua" || f.Path == "c04use.lua" {
			// member names after `.` / `:` in the module scenario
			toks := inf.res.Tokens
			for ti := 1; ti < len(toks); ti++ {
				if toks[ti].Kind == reflua.TName && (toks[ti-1].Text == "." || toks[ti-1].Text == ":") {
					ids = append(ids, ident{toks[ti].Text, reflua.Span{Off: toks[ti].Off, End: toks[ti].End}, true})
					env.Stats.Class("pos-module-member")
				}
			}
		}
		// names inside annotation lines (definition only)
		annFrom := len(ids)
		for _, ln := range refmodel.Lines(f.Text) {
			line := f.Text[ln.Start:ln.End]
			if !strings.HasPrefix(line, "---@") {
				continue
			}
			for _, m := range reAnnName.FindAllStringIndex(line, -1) {
				ids = append(ids, ident{line[m[0]:m[1]], reflua.Span{Off: ln.Start + m[0], End: ln.Start + m[1]}, false})
			}
		}
		for k, id := range ids {
			l := spanLoc(f.Path, f.Text, id.sp)
			if k >= annFrom {
				qs = append(qs, q{"textDocument/definition", fi, id.name, l, len(req.Steps)})
				req.Steps = append(req.Steps, harness.Call("textDocument/definition", harness.TDPos(f.Path, l.SL, l.SC)))
				env.Stats.Class("annotation-name-query")
				continue
			}
			// non-trivial: preceded on its line by a string, a comment, a tab or a non-ASCII character
			ls := refmodel.Lines(f.Text)
			pre := f.Text[ls[l.SL].Start:id.sp.Off]
			if strings.ContainsAny(pre, "\"'\t") || strings.Contains(pre, "]]") || strings.Contains(pre, "]=") || !isASCII(pre) {
				ntOcc++
			}
			for _, m := range []string{"textDocument/definition", "textDocument/references", "textDocument/documentHighlight", "textDocument/rename"} {
				var params json.RawMessage
				switch m {
				case "textDocument/references":
					params = refParams(f.Path, l.SL, l.SC)
				case "textDocument/rename":
					params = harness.J(harness.M{"textDocument": harness.M{"uri": harness.URI(f.Path)}, "position": harness.Pos(l.SL, l.SC), "newName": "zzq"})
				default:
					params = harness.TDPos(f.Path, l.SL, l.SC)
				}
				qs = append(qs, q{m, fi, id.name, l, len(req.Steps)})
				req.Steps = append(req.Steps, harness.Call(m, params))
			}
		}
		qs = append(qs, q{"textDocument/documentSymbol", fi, "", Loc{File: f.Path}, len(req.Steps)})
		req.Steps = append(req.Steps, harness.Call("textDocument/documentSymbol", harness.J(harness.M{"textDocument": harness.M{"uri": harness.URI(f.Path)}})))
	}
	// workspace/symbol with every global name and the empty query
	wsNames := map[string]bool{"": true}
	for _, inf := range infos {
		if inf.bind != nil {
			for n := range inf.bind.GlobalDefs {
				wsNames[n] = true
			}
		}
	}
	for n := range wsNames {
		qs = append(qs, q{"workspace/symbol", -1, n, Loc{}, len(req.Steps)})
		req.Steps = append(req.Steps, harness.Call("workspace/symbol", harness.J(harness.M{"query": n})))
	}
	o := env.Exec(req)
	if o.Crash() {
		return violf("crash", "server died: %s\n%s", o.Describe(), showWS(&c.WS))
	}
	if o.Resp.Fatal != "" || o.Resp.InitError != "" {
		return violf("inconclusive", "executor: %s %s", o.Resp.Fatal, o.Resp.InitError)
	}
	bad := func(class, what string, file string, sl, sc, el, ec int, why string) *Violation {
		return violf(class, "%s: range %s:%d:%d-%d:%d %s\n--- %s (quoted)\n%q\n%s", what, file, sl, sc, el, ec, why, file, texts[file], showWS(&c.WS))
	}
	// diagnostics
	for uri, ds := range harness.FoldDiags(o.Resp.Pushes, 1<<30) {
		file := harness.RelOfURI(uri)
		text, ok := texts[file]
		if !ok {
			return violf("unknown-file", "diagnostics published for %s, which is not a file of the workspace", uri)
		}
		for _, d := range ds {
			if p := rangeProblem(text, d.SL, d.SC, d.EL, d.EC); p != "" {
				return bad("diag-range", fmt.Sprintf("diagnostic type %d %q", d.Type, d.Message), file, d.SL, d.SC, d.EL, d.EC, p)
			}
			env.Stats.Class("range-diag")
			name := ""
			switch d.Type {
			case 2, 3:
				if m := reNotDefine.FindStringSubmatch(d.Message); m != nil {
					name = m[1]
				}
			case 4, 17:
				if m := reNotUsed.FindStringSubmatch(d.Message); m != nil {
					name = m[1]
				}
			case 13:
				if m := reDupParam.FindStringSubmatch(d.Message); m != nil {
					name = m[1]
				}
			}
			if name != "" && !anyInvalid {
				if got := slice(text, d.SL, d.SC, d.EL, d.EC); got != name {
					return bad("diag-name", fmt.Sprintf("diagnostic type %d names %q", d.Type, name), file, d.SL, d.SC, d.EL, d.EC, fmt.Sprintf("covers %q", got))
				}
				env.Stats.Class("named-diag")
			}
			for _, r := range d.Related {
				rf := harness.RelOfURI(r.URI)
				if rt, ok := texts[rf]; ok {
					if p := rangeProblem(rt, r.SL, r.SC, r.EL, r.EC); p != "" {
						return bad("related-range", "related information of a diagnostic", rf, r.SL, r.SC, r.EL, r.EC, p)
					}
				}
			}
		}
	}
	for _, x := range qs {
		r := harness.ResultOf(o.Resp, x.step)
		if r == nil {
			return violf("inconclusive", "no result for step %d", x.step)
		}
		if r.Error != "" {
			continue // an error answer carries no range
		}
		env.Stats.mu.Lock()
		env.Stats.Queries++
		env.Stats.mu.Unlock()
		switch x.method {
		case "textDocument/definition", "textDocument/references":
			ls, _ := parseLocations(r.Result)
			for _, l := range ls {
				text, ok := texts[l.File]
				if !ok {
					continue // e.g. a location inside the bundled library stubs
				}
				what := fmt.Sprintf("%s of %q at %s", x.method, x.name, x.at)
				if p := rangeProblem(text, l.SL, l.SC, l.EL, l.EC); p != "" {
					return bad("loc-range", what, l.File, l.SL, l.SC, l.EL, l.EC, p)
				}
				got := slice(text, l.SL, l.SC, l.EL, l.EC)
				if x.method == "textDocument/definition" && x.name == "nope" {
					// go-to-definition on a member nobody defines falls back to the deepest defined
					// prefix (the table) by design: the location names that table, not the member
					env.Stats.mu.Lock()
					env.Stats.DontCare++
					env.Stats.mu.Unlock()
					continue
				}
				if got != x.name && got != "self" {
					return bad("loc-name", what, l.File, l.SL, l.SC, l.EL, l.EC, fmt.Sprintf("covers %q, not the identifier", got))
				}
				env.Stats.Class("range-location")
			}
		case "textDocument/documentHighlight":
			for _, l := range parseHighlights(r.Result, c.WS.Files[x.file].Path) {
				text := texts[l.File]
				what := fmt.Sprintf("documentHighlight of %q at %s", x.name, x.at)
				if p := rangeProblem(text, l.SL, l.SC, l.EL, l.EC); p != "" {
					return bad("hl-range", what, l.File, l.SL, l.SC, l.EL, l.EC, p)
				}
				if got := slice(text, l.SL, l.SC, l.EL, l.EC); got != x.name && got != "self" {
					return bad("hl-name", what, l.File, l.SL, l.SC, l.EL, l.EC, fmt.Sprintf("covers %q, not the identifier", got))
				}
				env.Stats.Class("range-highlight")
			}
		case "textDocument/rename":
			var we workspaceEdit
			json.Unmarshal(r.Result, &we)
			for uri, es := range we.Changes {
				file := harness.RelOfURI(uri)
				text, ok := texts[file]
				if !ok {
					continue
				}
				for _, e := range es {
					what := fmt.Sprintf("rename edit for %q at %s", x.name, x.at)
					sl, sc, el, ec := e.Range.Start.Line, e.Range.Start.Character, e.Range.End.Line, e.Range.End.Character
					if p := rangeProblem(text, sl, sc, el, ec); p != "" {
						return bad("rename-range", what, file, sl, sc, el, ec, p)
					}
					if got := slice(text, sl, sc, el, ec); got != x.name && !(got == "self" && gate("c11-self")) {
						return bad("rename-name", what, file, sl, sc, el, ec, fmt.Sprintf("covers %q, not the identifier", got))
					}
					env.Stats.Class("range-rename")
				}
			}
		case "textDocument/documentSymbol":
			var syms []docSymbol
			json.Unmarshal(r.Result, &syms)
			file := c.WS.Files[x.file].Path
			var walk func(ss []docSymbol) *Violation
			walk = func(ss []docSymbol) *Violation {
				for _, s := range ss {
					for _, rg := range []lspRange{s.Range, s.SelectionRange} {
						if p := rangeProblem(texts[file], rg.Start.Line, rg.Start.Character, rg.End.Line, rg.End.Character); p != "" {
							return bad("symbol-range", fmt.Sprintf("documentSymbol %q", s.Name), file, rg.Start.Line, rg.Start.Character, rg.End.Line, rg.End.Character, p)
						}
					}
					env.Stats.Class("range-docsymbol")
					if v := walk(s.Children); v != nil {
						return v
					}
				}
				return nil
			}
			if v := walk(syms); v != nil {
				return v
			}
		case "workspace/symbol":
			var infos []struct {
				Name     string      `json:"name"`
				Location lspLocation `json:"location"`
			}
			json.Unmarshal(r.Result, &infos)
			for _, si := range infos {
				file := harness.RelOfURI(si.Location.URI)
				text, ok := texts[file]
				if !ok {
					continue
				}
				rg := si.Location.Range
				if p := rangeProblem(text, rg.Start.Line, rg.Start.Character, rg.End.Line, rg.End.Character); p != "" {
					return bad("wssymbol-range", fmt.Sprintf("workspace/symbol %q (query %q)", si.Name, x.name), file, rg.Start.Line, rg.Start.Character, rg.End.Line, rg.End.Character, p)
				}
				env.Stats.Class("range-wssymbol")
			}
		}
	}
	env.Stats.Class("origin-" + c.Origin)
	env.Stats.ClassN("occurrence-after-string-comment-tab-nonascii", ntOcc)
	if ntOcc > 0 && env.Stats.NT(showWS(&c.WS)) {
		env.Stats.Class("nontrivial")
		env.Stats.Sample(3, map[string]interface{}{"workspace": c.WS.Files, "requests": len(qs)})
	}
	return nil
}

type lspRange struct {
	Start struct{ Line, Character int } `json:"start"`
	End   struct{ Line, Character int } `json:"end"`
}

type docSymbol struct {
	Name           string      `json:"name"`
	Detail         string      `json:"detail"`
	Kind           int         `json:"kind"`
	Range          lspRange    `json:"range"`
	SelectionRange lspRange    `json:"selectionRange"`
	Children       []docSymbol `json:"children"`
}

func TestC04(t *testing.T) { runProp(t, "C04", genC04, checkC04) }
