package props

import (
	"encoding/json"
	"fmt"
	"strings"
	"testing"

	"pgregory.net/rapid"

	"verif/harness"
	"verif/proto"
	"verif/reflua"
)

// C19 — symbol outlines list every declaration at its real place, findable by name.

type C19Decl struct {
	File   int    `json:"file"`
	Name   string `json:"name"`   // declared name (for members: the member name)
	Owner  string `json:"owner"`  // owning table for members
	Kind   string `json:"kind"`   // local | global | gfunc | lfunc | member-func | member-method | member-assign-func | member-var | ctor-field
	Off    int    `json:"off"`    // byte offset of the declaring identifier
	Global bool   `json:"global"` // findable through workspace/symbol by exact name
	WSOnly bool   `json:"wsonly"` // nested declaration: only the workspace/symbol half applies
}

type C19Case struct {
	WS    Workspace `json:"ws"`
	Decls []C19Decl `json:"decls"`
	// Protocol: when not empty the workspace holds a luahelper.json whose ProtocolVars lists these
	// table names (documented: members written under such a prefix need no declaration of the table)
	Protocol []string `json:"protocol,omitempty"`
}

func init() { register("C19", checkC19) }

func genC19(t *rapid.T) C19Case {
	var c C19Case
	nf := rapid.IntRange(1, 3).Draw(t, "nfiles")
	ctr := 0
	name := func(p string) string { ctr++; return fmt.Sprintf("%s%d", p, ctr) }
	lit := func() string {
		return rapid.SampledFrom([]string{"1", "\"s\"", "true", "nil", "{}", "1.5", "{ 1, 2 }"}).Draw(t, "lit")
	}
	params := func() string {
		return rapid.SampledFrom([]string{"", "a", "a, b", "..."}).Draw(t, "params")
	}
	body := func() string {
		return rapid.SampledFrom([]string{" ", "\n  local inner = 1\n  return inner\n", " return 1 ", "\n  if true then\n    print(1)\n  end\n"}).Draw(t, "body")
	}
	for fi := 0; fi < nf; fi++ {
		var b strings.Builder
		add := func(kind, owner, nm string, global bool, before, after string) {
			b.WriteString(before)
			c.Decls = append(c.Decls, C19Decl{File: fi, Name: nm, Owner: owner, Kind: kind, Off: b.Len(), Global: global})
			b.WriteString(nm)
			b.WriteString(after)
		}
		// statements that declare nothing, placed between declarations and between a table and its members
		noise := func() {
			if rapid.IntRange(0, 3).Draw(t, "noise") == 0 {
				b.WriteString(rapid.SampledFrom([]string{"while false do end\n", "for i = 1, 2 do end\n", "do end\n", "if false then end\n", "repeat until true\n",
					"for k, v in pairs({}) do end\n", "print(1)\n", "while false do\n  local w = 1\nend\n"}).Draw(t, "noiseStat"))
			}
		}
		n := rapid.IntRange(1, 8).Draw(t, "nitems")
		for i := 0; i < n; i++ {
			noise()
			switch rapid.IntRange(0, 9).Draw(t, "item") {
			case 9:
				// members under a configured protocol prefix; the table itself is declared nowhere
				tn := name("Proto")
				c.Protocol = append(c.Protocol, tn)
				nm := rapid.IntRange(1, 4).Draw(t, "nprotoMembers")
				for j := 0; j < nm; j++ {
					noise()
					switch rapid.IntRange(0, 2).Draw(t, "protoMember") {
					case 0:
						add("member-func", tn, name("pf"), false, "function "+tn+".", "("+params()+")"+body()+"end\n")
					case 1:
						add("member-method", tn, name("pm"), false, "function "+tn+":", "("+params()+")"+body()+"end\n")
					default:
						add("member-assign-func", tn, name("pa"), false, tn+".", " = function("+params()+")"+body()+"end\n")
					}
				}
			case 8:
				// a local function declared below the main chunk's top level: in a do / if / for block, in
				// the body of a top-level local function, in the body of a global function, in a method
				nm := name("Nfun")
				wrap := rapid.SampledFrom([][2]string{{"do\n  ", "end\n"}, {"if true then\n  ", "end\n"}, {"for i = 1, 2 do\n  ", "end\n"},
					{"local function " + name("Outer") + "()\n  ", "end\n"}, {"function " + name("GOuter") + "()\n  ", "end\n"}}).Draw(t, "wrap")
				if gate("c19-lfunc-in-global-func") && strings.HasPrefix(wrap[0], "function ") {
					// known finding C19-F2
					excluded()
					wrap = [2]string{"do\n  ", "end\n"}
				}
				b.WriteString(wrap[0])
				c.Decls = append(c.Decls, C19Decl{File: fi, Name: nm, Kind: "nested-lfunc-in-" + strings.Fields(wrap[0])[0], Off: b.Len() + len("local function "), Global: true, WSOnly: true})
				b.WriteString("local function " + nm + "(" + params() + ")" + body() + "end\n")
				b.WriteString(wrap[1])
			case 0:
				add("local", "", name("Loc"), false, "local ", " = "+lit()+"\n")
			case 1:
				add("global", "", name("Glob"), true, "", " = "+lit()+"\n")
			case 2:
				add("gfunc", "", name("Gfun"), true, "function ", "("+params()+")"+body()+"end\n")
			case 3:
				add("lfunc", "", name("Lfun"), true, "local function ", "("+params()+")"+body()+"end\n")
			case 4, 5:
				// a table with members
				global := rapid.Bool().Draw(t, "globalTable")
				var tn string
				if global {
					tn = name("Gtab")
					add("global", "", tn, true, "", " = {}\n")
					if rapid.IntRange(0, 3).Draw(t, "tableIsProtocol") == 0 {
						c.Protocol = append(c.Protocol, tn)
					}
				} else {
					tn = name("Ltab")
					add("local", "", tn, false, "local ", " = {}\n")
				}
				nm := rapid.IntRange(0, 4).Draw(t, "nmembers")
				for j := 0; j < nm; j++ {
					noise()
					switch rapid.IntRange(0, 3).Draw(t, "member") {
					case 0:
						add("member-func", tn, name("mf"), global, "function "+tn+".", "("+params()+")"+body()+"end\n")
					case 1:
						add("member-method", tn, name("mm"), global, "function "+tn+":", "("+params()+")"+body()+"end\n")
					case 2:
						add("member-assign-func", tn, name("ma"), global, tn+".", " = function("+params()+")"+body()+"end\n")
					default:
						add("member-var", tn, name("mv"), global, tn+".", " = "+lit()+"\n")
					}
					if j < nm-1 && rapid.IntRange(0, 4).Draw(t, "reopen") == 0 {
						// the re-open idiom between two groups of members
						b.WriteString(tn + " = " + tn + " or {}\n")
					}
				}
				if nm > 0 && rapid.IntRange(0, 4).Draw(t, "reopenEnd") == 0 {
					b.WriteString(tn + " = " + tn + " or {}\n")
				}
			case 6:
				// ---@class block followed by its variable
				// one to three ---@class declarations back to back in one comment block, then the variable
				nc := rapid.IntRange(1, 3).Draw(t, "nclasses")
				prev := ""
				for k := 0; k < nc; k++ {
					cn := name("Cls")
					hdr := "---@class "
					c.Decls = append(c.Decls, C19Decl{File: fi, Name: cn, Kind: "class", Off: b.Len() + len(hdr), Global: true})
					b.WriteString(hdr + cn)
					if prev != "" && rapid.Bool().Draw(t, "classParent") {
						b.WriteString(" : " + prev)
					}
					b.WriteString("\n---@field fa number\n")
					prev = cn
				}
				add("local", "", name("Cv"), false, "local ", " = {}\n")
			default:
				// table constructor with function fields
				tn := name("Ctab")
				add("local", "", tn, false, "local ", " = {\n")
				add("ctor-field", tn, name("cf"), false, "  ", " = function("+params()+") end,\n")
				add("ctor-field", tn, name("cv"), false, "  ", " = 1,\n")
				b.WriteString("}\n")
			}
		}
		c.WS.Files = append(c.WS.Files, WSFile{Path: wsFileNames[fi], Text: b.String()})
	}
	return c
}

func flattenSymbols(ss []docSymbol, out *[]docSymbol) {
	for _, s := range ss {
		*out = append(*out, s)
		flattenSymbols(s.Children, out)
	}
}

func checkC19(c C19Case, env *Env) *Violation {
	for _, f := range c.WS.Files {
		if res := reflua.Parse(f.Text); res.Verdict != reflua.Valid {
			return violf("inconclusive", "generated file %s not valid: %v", f.Path, res.Err)
		}
	}
	req := &proto.Request{Cmd: "session", Files: c.WS.protoFiles(), InitOptions: harness.J(harness.Flags(1))}
	if len(c.Protocol) > 0 {
		pv, _ := json.Marshal(c.Protocol)
		req.Files = append(req.Files, proto.File{Path: "luahelper.json", Data: []byte(`{"BaseDir":"./","ShowWarnFlag":0,"ProtocolVars":` + string(pv) + `}`)})
		env.Stats.Class("protocol-vars-configured")
	}
	req.Steps = c.WS.openAll()
	symStep := map[int]int{}
	for fi, f := range c.WS.Files {
		symStep[fi] = len(req.Steps)
		req.Steps = append(req.Steps, harness.Call("textDocument/documentSymbol", harness.J(harness.M{"textDocument": harness.M{"uri": harness.URI(f.Path)}})))
	}
	wsStep := map[int]int{}
	for i, d := range c.Decls {
		if !d.Global {
			continue
		}
		q := d.Name
		if d.Owner != "" {
			q = d.Owner + "." + d.Name
		}
		wsStep[i] = len(req.Steps)
		req.Steps = append(req.Steps, harness.Call("workspace/symbol", harness.J(harness.M{"query": q})))
	}
	o := env.Exec(req)
	if o.Crash() {
		return violf("crash", "server died: %s\n%s", o.Describe(), showWS(&c.WS))
	}
	if o.Resp.Fatal != "" || o.Resp.InitError != "" {
		return violf("inconclusive", "executor: %s %s", o.Resp.Fatal, o.Resp.InitError)
	}
	outline := map[int][]docSymbol{}
	for fi := range c.WS.Files {
		r := harness.ResultOf(o.Resp, symStep[fi])
		if r == nil || r.Error != "" {
			return violf("error", "documentSymbol failed for %s", c.WS.Files[fi].Path)
		}
		var syms, flat []docSymbol
		json.Unmarshal(r.Result, &syms)
		flattenSymbols(syms, &flat)
		outline[fi] = flat
		for _, s := range flat {
			if p := rangeProblem(c.WS.Files[fi].Text, s.Range.Start.Line, s.Range.Start.Character, s.Range.End.Line, s.Range.End.Character); p != "" {
				return violf("range", "outline entry %q of %s has a malformed range %v: %s\n%s", s.Name, c.WS.Files[fi].Path, s.Range, p, showWS(&c.WS))
			}
		}
	}
	members := 0
	for i, d := range c.Decls {
		f := c.WS.Files[d.File]
		id := spanLoc(f.Path, f.Text, reflua.Span{Off: d.Off, End: d.Off + len(d.Name)})
		if d.WSOnly {
			// nested declarations: the outline half speaks of top-level locals, globals and functions
		} else if d.Kind == "ctor-field" {
			// fields written inside a table constructor: the property lists "table members such as t.f
			// and t:m"; constructor fields are don't-care
			env.Stats.mu.Lock()
			env.Stats.DontCare++
			env.Stats.mu.Unlock()
		} else {
			found := false
			nameSeen := false
			for _, s := range outline[d.File] {
				if !symbolNames(s.Name, d.Name) {
					continue
				}
				nameSeen = true
				if rangeContains(s.Range, id) {
					found = true
					break
				}
			}
			if !found {
				if gate("c19-assigned-func-range") && d.Kind == "member-assign-func" && nameSeen {
					excludedIn(env)
				} else if !nameSeen {
					return violf("outline-missing", "the outline of %s has no entry for the %s %q declared at %s\n%s", f.Path, d.Kind, d.Name, id, showWS(&c.WS))
				} else {
					return violf("outline-range", "the outline of %s lists %q (%s) but no such entry has a range containing the declaring identifier at %s\n%s", f.Path, d.Name, d.Kind, id, showWS(&c.WS))
				}
			}
		}
		env.Stats.Class("decl-" + d.Kind)
		if strings.HasPrefix(d.Kind, "member-") {
			members++
		}
		if st, ok := wsStep[i]; ok {
			r := harness.ResultOf(o.Resp, st)
			if r == nil || r.Error != "" {
				return violf("error", "workspace/symbol failed")
			}
			var infos []struct {
				Name     string      `json:"name"`
				Location lspLocation `json:"location"`
			}
			json.Unmarshal(r.Result, &infos)
			ok := false
			for _, si := range infos {
				if !symbolNames(si.Name, d.Name) || harness.RelOfURI(si.Location.URI) != f.Path {
					continue
				}
				rg := lspRange{Start: si.Location.Range.Start, End: si.Location.Range.End}
				if rangeOverlaps(rg, id) {
					ok = true
					break
				}
			}
			if !ok {
				return violf("wssymbol-missing", "workspace/symbol for the exact name of the %s %q (declared at %s) returns no entry located at that declaration\n%s", d.Kind, d.Name, id, showWS(&c.WS))
			}
			env.Stats.mu.Lock()
			env.Stats.Queries++
			env.Stats.mu.Unlock()
		}
	}
	if members >= 2 && env.Stats.NT(showWS(&c.WS)) {
		env.Stats.Class("nontrivial")
		env.Stats.Sample(3, map[string]interface{}{"workspace": c.WS.Files, "declarations": len(c.Decls)})
	}
	return nil
}

// symbolNames: the entry name contains the declared name as a whole identifier (entries are
// decorated: "local X", "T.f(a, b)", "T:m").
func symbolNames(entry, name string) bool {
	i := strings.Index(entry, name)
	for i >= 0 {
		before := i == 0 || !isIdentByte(entry[i-1])
		after := i+len(name) == len(entry) || !isIdentByte(entry[i+len(name)])
		if before && after {
			return true
		}
		j := strings.Index(entry[i+1:], name)
		if j < 0 {
			break
		}
		i += 1 + j
	}
	return false
}

func isIdentByte(b byte) bool {
	return b == '_' || b >= '0' && b <= '9' || b >= 'a' && b <= 'z' || b >= 'A' && b <= 'Z'
}

func posLE(l1, c1, l2, c2 int) bool { return l1 < l2 || (l1 == l2 && c1 <= c2) }

func rangeContains(r lspRange, id Loc) bool {
	return posLE(r.Start.Line, r.Start.Character, id.SL, id.SC) && posLE(id.EL, id.EC, r.End.Line, r.End.Character)
}

func rangeOverlaps(r lspRange, id Loc) bool {
	return posLE(r.Start.Line, r.Start.Character, id.EL, id.EC) && posLE(id.SL, id.SC, r.End.Line, r.End.Character)
}

func TestC19(t *testing.T) { runProp(t, "C19", genC19, checkC19) }
