package props

import (
	"fmt"
	"sort"
	"strings"
	"testing"

	"pgregory.net/rapid"

	"verif/harness"
	"verif/proto"
	"verif/refmodel"
)

// C08 — after any edit / file-event history, diagnostics equal those of a fresh start.

type C08Action struct {
	Kind string `json:"kind"` // create | change | delete | open | edit | save | close | batch
	File int    `json:"file"`
	// batch: one didChangeWatchedFiles notification with a Changed event for each of Files; Texts[k] is
	// the new disk content of Files[k], or c08Same when the file is reported changed with the same
	// content (a touch, or a save that changes nothing)
	Files []int    `json:"files,omitempty"`
	Texts []string `json:"texts,omitempty"`
	// Recreate[k]: the file is replaced the way an atomic save or a checkout does it — the notification
	// carries Deleted and then Created for the same path (the file exists when the server looks)
	Recreate []bool `json:"recreate,omitempty"`
	Text     string `json:"text,omitempty"`
	// Incremental: for edit, send the new text as one incremental replacement of the whole old text
	Incremental bool `json:"incremental,omitempty"`
}

type C08Case struct {
	Initial []string    `json:"initial"` // initial content per file ("" + Exists=false: absent)
	Exists  []bool      `json:"exists"`
	Actions []C08Action `json:"actions"`
	// Config: the workspace holds a luahelper.json with IgnoreFileNameVarFlag = 1 (documented: an
	// undefined global named like a Lua file of the workspace is not reported) and the same checks on
	Config bool `json:"config,omitempty"`
}

// c08Config is that configuration file: checks 1, 2, 3, 4, 6 only, as with the client flags.
const c08Config = `{"BaseDir":"./","ShowWarnFlag":1,"IgnoreFileNameVarFlag":1,"IgnoreErrorTypes":[5,7,8,9,10,11,12,13,14,15,16,17,18,19,20,21,22,23,24,25]}`

func init() { register("C08", checkC08) }

const c08Same = "\x00same"

var c08Flags = []int{1, 2, 3, 4, 6}

func c08Name(i int) string {
	if i == 3 {
		return "sub/f3.lua"
	}
	return fmt.Sprintf("f%d.lua", i)
}

func c08Module(i int) string {
	if i == 3 {
		return "sub.f3"
	}
	return fmt.Sprintf("f%d", i)
}

// c08Content draws the content of file i from fragments.
func c08Content(t *rapid.T, i, nfiles int) string {
	var b strings.Builder
	n := rapid.IntRange(1, 3).Draw(t, "nfrag")
	for k := 0; k < n; k++ {
		j := rapid.IntRange(0, nfiles-1).Draw(t, "other")
		switch rapid.IntRange(0, 8).Draw(t, "frag") {
		case 8:
			// reads an undefined global spelled like another file's base name
			fmt.Fprintf(&b, "print(f%d.value)\n", j)
		case 7:
			if j != i {
				fmt.Fprintf(&b, "dofile(\"%s\")\n", c08Name(j)) // refers to another file by its path with suffix
			} else {
				fmt.Fprintf(&b, "print(%d)\n", k)
			}
		case 0:
			fmt.Fprintf(&b, "local a%d_%d = 1\nprint(a%d_%d)\n", i, k, i, k)
		case 1:
			fmt.Fprintf(&b, "local s%d_%d = = 1\n", i, k) // syntax error
		case 2:
			fmt.Fprintf(&b, "local u%d_%d = 1\n", i, k) // unused local
		case 3:
			fmt.Fprintf(&b, "G%d = %d\n", i, k) // defines this file's global
		case 4:
			if j != i {
				fmt.Fprintf(&b, "print(G%d)\n", j) // reads another file's global
			} else {
				fmt.Fprintf(&b, "print(%d)\n", k)
			}
		case 5:
			if j != i {
				fmt.Fprintf(&b, "local m%d_%d = require(\"%s\")\nprint(m%d_%d)\n", i, k, c08Module(j), i, k)
			} else {
				fmt.Fprintf(&b, "print(%d)\n", k)
			}
		default:
			fmt.Fprintf(&b, "if x%d then\n", i) // unfinished block: syntax error
		}
	}
	return b.String()
}

func genC08(t *rapid.T) C08Case {
	nf := rapid.IntRange(2, 4).Draw(t, "nfiles")
	var c C08Case
	exists := make([]bool, nf)
	open := make([]bool, nf)
	for i := 0; i < nf; i++ {
		exists[i] = rapid.IntRange(0, 3).Draw(t, "existsInitially") > 0
		txt := ""
		if exists[i] {
			txt = c08Content(t, i, nf)
		}
		c.Initial = append(c.Initial, txt)
		c.Exists = append(c.Exists, exists[i])
	}
	c.Config = rapid.IntRange(0, 3).Draw(t, "fileNameVarConfig") == 0
	n := rapid.IntRange(1, 15).Draw(t, "nactions")
	for s := 0; s < n; s++ {
		i := rapid.IntRange(0, nf-1).Draw(t, "file")
		var kinds []string
		switch {
		case !exists[i]:
			kinds = []string{"create"}
		case open[i]:
			kinds = []string{"edit", "edit", "edit", "save", "save", "close"}
		default:
			kinds = []string{"open", "open", "change", "delete"}
		}
		var closed []int
		for j := 0; j < nf; j++ {
			if exists[j] && !open[j] {
				closed = append(closed, j)
			}
		}
		if len(closed) >= 1 && rapid.IntRange(0, 5).Draw(t, "batch") == 0 {
			a := C08Action{Kind: "batch", File: closed[0]}
			for _, j := range closed {
				switch rapid.IntRange(0, 3).Draw(t, "batchKind") {
				case 0:
					a.Files, a.Texts, a.Recreate = append(a.Files, j), append(a.Texts, c08Content(t, j, nf)), append(a.Recreate, false)
				case 1:
					a.Files, a.Texts, a.Recreate = append(a.Files, j), append(a.Texts, c08Same), append(a.Recreate, false)
				case 2:
					txt := c08Same
					if rapid.Bool().Draw(t, "recreateNew") {
						txt = c08Content(t, j, nf)
					}
					a.Files, a.Texts, a.Recreate = append(a.Files, j), append(a.Texts, txt), append(a.Recreate, true)
				}
			}
			recreates := false
			for _, r := range a.Recreate {
				recreates = recreates || r
			}
			if len(a.Files) >= 2 || recreates {
				c.Actions = append(c.Actions, a)
				continue
			}
		}
		k := rapid.SampledFrom(kinds).Draw(t, "action")
		a := C08Action{Kind: k, File: i}
		switch k {
		case "create", "change", "edit":
			a.Text = c08Content(t, i, nf)
			a.Incremental = k == "edit" && rapid.Bool().Draw(t, "incremental")
		}
		switch k {
		case "create":
			exists[i] = true
		case "delete":
			exists[i] = false
		case "open":
			open[i] = true
		case "close":
			open[i] = false
		}
		c.Actions = append(c.Actions, a)
	}
	return c
}

type diagSet map[string]int // "uri|type|range|message" -> count

func viewOf(pushes []proto.Push, upto int) diagSet {
	v := diagSet{}
	for uri, ds := range harness.FoldDiags(pushes, upto) {
		for _, d := range ds {
			v[fmt.Sprintf("%s|%d|%d:%d-%d:%d|%s", harness.RelOfURI(uri), d.Type, d.SL, d.SC, d.EL, d.EC, d.Message)]++
		}
	}
	return v
}

func (v diagSet) ofFile(file string, keep func(typ int) bool) diagSet {
	out := diagSet{}
	for k, n := range v {
		parts := strings.SplitN(k, "|", 3)
		if parts[0] != file {
			continue
		}
		var typ int
		fmt.Sscan(parts[1], &typ)
		if keep(typ) {
			out[k] = n
		}
	}
	return out
}

func (v diagSet) without(file string) diagSet {
	out := diagSet{}
	for k, n := range v {
		if !strings.HasPrefix(k, file+"|") {
			out[k] = n
		}
	}
	return out
}

// diffSets compares as sets: identical diagnostics (same range, type and message) published twice
// are not distinguished from one.
func diffSets(a, b diagSet) string {
	var msgs []string
	for k, n := range a {
		if b[k] == 0 {
			msgs = append(msgs, fmt.Sprintf("  client holds %d x %s, expected %d", n, k, b[k]))
		}
	}
	for k, n := range b {
		if _, ok := a[k]; !ok {
			msgs = append(msgs, fmt.Sprintf("  client holds 0 x %s, expected %d", k, n))
		}
	}
	sort.Strings(msgs)
	return strings.Join(msgs, "\n")
}

func checkC08(c C08Case, env *Env) *Violation {
	nf := len(c.Initial)
	disk := make([]string, nf)
	exists := make([]bool, nf)
	open := make([]bool, nf)
	buf := make([]string, nf)
	version := make([]int, nf)
	req := &proto.Request{Cmd: "session", InitOptions: harness.J(harness.Flags(c08Flags...))}
	for i := 0; i < nf; i++ {
		disk[i], exists[i] = c.Initial[i], c.Exists[i]
		if exists[i] {
			req.Files = append(req.Files, proto.File{Path: c08Name(i), Data: []byte(disk[i])})
		}
	}
	// keep the workspace directory non-empty and stable
	req.Files = append(req.Files, proto.File{Path: "keep.lua", Data: []byte("local keep = 1\nprint(keep)\n")})
	if c.Config {
		req.Files = append(req.Files, proto.File{Path: "luahelper.json", Data: []byte(c08Config)})
		req.InitOptions = harness.J(harness.AllOn())
		env.Stats.Class("with-file-name-variable-config")
	}
	type checkpoint struct {
		step   int // last step of the action
		disk   []string
		exists []bool
		open   []bool
		buf    []string
		dirty  []bool
		desc   string
	}
	dirtyFlag := make([]bool, nf) // edited since the last open / save
	var cps []checkpoint
	snap := func(desc string) {
		cps = append(cps, checkpoint{len(req.Steps) - 1, append([]string{}, disk...), append([]bool{}, exists...), append([]bool{}, open...), append([]string{}, buf...), append([]bool{}, dirtyFlag...), desc})
	}
	hasDeleteOrCreate, hasEditThenSave, edited := false, false, map[int]bool{}
	for ai, a := range c.Actions {
		i := a.File
		name := c08Name(i)
		switch a.Kind {
		case "create":
			disk[i], exists[i] = a.Text, true
			req.Steps = append(req.Steps, proto.Step{Op: "write", Path: name, Data: []byte(a.Text)}, harness.Watched([2]interface{}{name, 1}))
			hasDeleteOrCreate = true
		case "change":
			disk[i] = a.Text
			req.Steps = append(req.Steps, proto.Step{Op: "write", Path: name, Data: []byte(a.Text)}, harness.Watched([2]interface{}{name, 2}))
		case "delete":
			exists[i] = false
			req.Steps = append(req.Steps, proto.Step{Op: "remove", Path: name}, harness.Watched([2]interface{}{name, 3}))
			hasDeleteOrCreate = true
		case "batch":
			var evs [][2]interface{}
			for k, j := range a.Files {
				if a.Texts[k] != c08Same {
					disk[j] = a.Texts[k]
				}
				// a touch rewrites the same bytes
				req.Steps = append(req.Steps, proto.Step{Op: "write", Path: c08Name(j), Data: []byte(disk[j])})
				if k < len(a.Recreate) && a.Recreate[k] {
					evs = append(evs, [2]interface{}{c08Name(j), 3}, [2]interface{}{c08Name(j), 1})
					hasDeleteOrCreate = true
				} else {
					evs = append(evs, [2]interface{}{c08Name(j), 2})
				}
			}
			req.Steps = append(req.Steps, harness.Watched(evs...))
		case "open":
			open[i], buf[i], version[i] = true, disk[i], 1
			dirtyFlag[i] = false
			req.Steps = append(req.Steps, harness.DidOpen(name, disk[i]))
		case "edit":
			version[i]++
			if a.Incremental {
				ls := refmodel.Lines(buf[i])
				el := len(ls) - 1
				ec := refmodel.U16Len(buf[i][ls[el].Start:ls[el].End])
				req.Steps = append(req.Steps, proto.Step{Op: "notify", Method: "textDocument/didChange", Params: harness.J(harness.M{
					"textDocument":   harness.M{"uri": harness.URI(name), "version": version[i]},
					"contentChanges": []harness.M{{"range": harness.M{"start": harness.Pos(0, 0), "end": harness.Pos(el, ec)}, "text": a.Text}}})})
			} else {
				req.Steps = append(req.Steps, harness.DidChangeFull(name, version[i], a.Text))
			}
			buf[i] = a.Text
			edited[i] = true
			dirtyFlag[i] = true
		case "save":
			disk[i] = buf[i]
			dirtyFlag[i] = false
			req.Steps = append(req.Steps, proto.Step{Op: "write", Path: name, Data: []byte(buf[i])}, harness.DidSave(name, buf[i]))
			if edited[i] {
				hasEditThenSave = true
			}
		case "close":
			open[i] = false
			buf[i] = ""
			dirtyFlag[i] = false
			req.Steps = append(req.Steps, harness.DidClose(name))
		}
		snap(fmt.Sprintf("action %d: %s %s", ai, a.Kind, name))
	}
	o := env.Exec(req)
	if o.Crash() {
		return violf("crash", "server died: %s\n%s", o.Describe(), c08Show(&c))
	}
	if o.Resp.Fatal != "" || o.Resp.InitError != "" {
		return violf("inconclusive", "executor: %s %s", o.Resp.Fatal, o.Resp.InitError)
	}
	fresh := func(disk []string, exists []bool, override int, text string) (diagSet, *Violation) {
		r := &proto.Request{Cmd: "session", InitOptions: harness.J(harness.Flags(c08Flags...))}
		for i := range disk {
			if i == override {
				r.Files = append(r.Files, proto.File{Path: c08Name(i), Data: []byte(text)})
			} else if exists[i] {
				r.Files = append(r.Files, proto.File{Path: c08Name(i), Data: []byte(disk[i])})
			}
		}
		r.Files = append(r.Files, proto.File{Path: "keep.lua", Data: []byte("local keep = 1\nprint(keep)\n")})
		if c.Config {
			r.Files = append(r.Files, proto.File{Path: "luahelper.json", Data: []byte(c08Config)})
			r.InitOptions = harness.J(harness.AllOn())
		}
		fo := env.Exec(r)
		if fo.Crash() {
			return nil, violf("crash", "fresh server died: %s", fo.Describe())
		}
		if fo.Resp.Fatal != "" || fo.Resp.InitError != "" {
			return nil, violf("inconclusive", "executor: %s %s", fo.Resp.Fatal, fo.Resp.InitError)
		}
		return viewOf(fo.Resp.Pushes, 1<<30), nil
	}
	for _, cp := range cps {
		view := viewOf(o.Resp.Pushes, cp.step)
		dirty := map[int]bool{}
		for i := range cp.open {
			if cp.open[i] && cp.dirty[i] {
				dirty[i] = true
			}
		}
		want, v := fresh(cp.disk, cp.exists, -1, "")
		if v != nil {
			return v
		}
		if len(dirty) == 0 {
			if d := diffSets(view, want); d != "" {
				return violf("stale", "after %s no document has unsaved edits, but the diagnostics the client holds differ from those of a server freshly started on the current files:\n%s\n%s", cp.desc, d, c08Show(&c))
			}
			env.Stats.Class("checkpoint-clean")
			continue
		}
		env.Stats.Class("checkpoint-dirty")
		// files without unsaved edits show what a fresh server shows; a dirty buffer shows its own
		// syntax errors if it has any, else the saved (on-disk) non-syntax diagnostics of its file
		rest, restWant := view, want
		for i := range cp.disk {
			if !dirty[i] {
				continue
			}
			name := c08Name(i)
			rest, restWant = rest.without(name), restWant.without(name)
			w, v := fresh(cp.disk, cp.exists, i, cp.buf[i])
			if v != nil {
				return v
			}
			syn := w.ofFile(name, func(t int) bool { return t == 1 })
			gotFile := view.ofFile(name, func(int) bool { return true })
			if len(syn) > 0 {
				if d := diffSets(gotFile, syn); d != "" {
					return violf("dirty-syntax", "after %s the buffer of %s has unsaved edits with syntax errors; the file must show exactly those:\n%s\n%s", cp.desc, name, d, c08Show(&c))
				}
			} else {
				wantFile := want.ofFile(name, func(t int) bool { return t != 1 })
				if d := diffSets(gotFile, wantFile); d != "" {
					return violf("dirty-nosyntax", "after %s the buffer of %s has unsaved edits without syntax errors; the file must show its saved non-syntax diagnostics:\n%s\n%s", cp.desc, name, d, c08Show(&c))
				}
			}
		}
		if d := diffSets(rest, restWant); d != "" {
			return violf("stale-others", "after %s the files without unsaved edits show diagnostics that differ from those of a fresh server:\n%s\n%s", cp.desc, d, c08Show(&c))
		}
	}
	if hasDeleteOrCreate && hasEditThenSave && env.Stats.NT(fmt.Sprint(c)) {
		env.Stats.Class("nontrivial")
		env.Stats.Sample(3, c)
	}
	for _, a := range c.Actions {
		env.Stats.Class("action-" + a.Kind)
	}
	return nil
}

func c08Show(c *C08Case) string {
	var b strings.Builder
	for i, t := range c.Initial {
		if c.Exists[i] {
			fmt.Fprintf(&b, "--- %s (initial)\n%s", c08Name(i), t)
		} else {
			fmt.Fprintf(&b, "--- %s (absent)\n", c08Name(i))
		}
	}
	for i, a := range c.Actions {
		if a.Kind == "batch" {
			fmt.Fprintf(&b, "%d. batch of Changed events:", i)
			for k, j := range a.Files {
				fmt.Fprintf(&b, " %s=%q", c08Name(j), a.Texts[k])
				if k < len(a.Recreate) && a.Recreate[k] {
					b.WriteString("(Deleted+Created)")
				}
			}
			b.WriteString("\n")
			continue
		}
		fmt.Fprintf(&b, "%d. %s %s incremental=%v %q\n", i, a.Kind, c08Name(a.File), a.Incremental, a.Text)
	}
	return b.String()
}

func TestC08(t *testing.T) { runProp(t, "C08", genC08, checkC08) }
