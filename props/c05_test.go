package props

import (
	"fmt"
	"strings"
	"testing"

	"pgregory.net/rapid"

	"verif/harness"
	"verif/luagen"
	"verif/proto"
	"verif/reflua"
)

// C05 — go-to-definition follows Lua's lexical scoping.

type C05Case struct {
	WS Workspace `json:"ws"`
}

func init() { register("C05", checkC05) }

func genC05(t *rapid.T) C05Case { return genC05Opt(t, false) }

func genC05Opt(t *rapid.T, gQualified bool) C05Case {
	o := semGenOpts{MaxFiles: 3, Naming: luagen.NamesTiny, Methods: true, GlobalsRW: true, GQualified: gQualified}
	if rapid.IntRange(0, 3).Draw(t, "namingMixed") == 0 {
		o.Naming = luagen.NamesMixed
	}
	if gate("c05-same-name-init") {
		o.NoSameName = true
		o.SameNameBareInit = true // `local v = v` resolves correctly; the finding needs an operator / constructor around the read
	}
	if gate("c05-func-in-for-bounds") {
		o.NoFuncInForBounds = true
	}
	if gate("c05-func-in-target") {
		o.NoFuncInTargetIndex = true
	}
	ws := genWorkspace(t, o)
	// a multi-line table constructor whose fields sit on their own, unindented or indented lines and are
	// initialised with a variable of the same name as the key (`width = width,`), one level or nested
	if rapid.IntRange(0, 2).Draw(t, "fieldNamedLikeValue") == 0 {
		fi := rapid.IntRange(0, len(ws.Files)-1).Draw(t, "ctorFile")
		names := map[string]bool{}
		var pool []string
		if res := reflua.Parse(ws.Files[fi].Text); res.Verdict == reflua.Valid {
			for _, tk := range res.Tokens {
				if tk.Kind == reflua.TName && !names[tk.Text] && tk.Text != "_G" && tk.Text != "self" {
					names[tk.Text] = true
					pool = append(pool, tk.Text)
				}
			}
		}
		if len(pool) > 0 {
			ind := rapid.SampledFrom([]string{"", "", "  ", "\t"}).Draw(t, "ctorIndent")
			var b strings.Builder
			b.WriteString(ws.Files[fi].Text)
			if !strings.HasSuffix(ws.Files[fi].Text, "\n") {
				b.WriteString("\n")
			}
			nested := rapid.Bool().Draw(t, "ctorNested")
			b.WriteString("local cfgt = {\n")
			if nested {
				b.WriteString(ind + "inner = {\n")
			}
			for k := rapid.IntRange(1, 3).Draw(t, "ctorFields"); k > 0; k-- {
				n := rapid.SampledFrom(pool).Draw(t, "ctorName")
				b.WriteString(ind + n + " = " + n + ",\n")
			}
			if nested {
				b.WriteString(ind + "},\n")
			}
			b.WriteString("}\nprint(cfgt)\n")
			if res := reflua.Parse(b.String()); res.Verdict == reflua.Valid {
				ws.Files[fi].Text = b.String()
			}
		}
	}
	return C05Case{WS: ws}
}

type occQuery struct {
	file int
	occ  *reflua.Occ
	pos  string // "start" | "last"
	step int
}

func checkC05(c C05Case, env *Env) *Violation {
	a, v := analyse(&c.WS)
	if v != nil {
		return v
	}
	req := &proto.Request{Cmd: "session", Files: c.WS.protoFiles(), InitOptions: harness.J(harness.Flags(1))}
	req.Steps = c.WS.openAll()
	var qs []occQuery
	for fi, b := range a.bind {
		f := c.WS.Files[fi]
		for _, o := range b.Occs {
			if o.Name.Off == o.Name.End { // synthetic self
				continue
			}
			if gate("c05-same-name-init") && o.InAssignOfSameName {
				// known finding C05-F1: a read inside a statement that assigns the same name
				excludedIn(env)
				continue
			}
			if dcOcc(o) {
				env.Stats.mu.Lock()
				env.Stats.DontCare++
				env.Stats.mu.Unlock()
				continue
			}
			if (gate("c05-bracket-quote") && kfBracketQuote(f.Text, o.Name.Off)) || (gate("c05-glued-bracket") && kfGluedBracket(f.Text, o.Name.Off)) {
				excludedIn(env)
				continue
			}
			l := spanLoc(f.Path, f.Text, o.Name.Span)
			qs = append(qs, occQuery{fi, o, "start", len(req.Steps)})
			req.Steps = append(req.Steps, harness.Call("textDocument/definition", harness.TDPos(f.Path, l.SL, l.SC)))
			if o.Name.End-o.Name.Off > 1 {
				qs = append(qs, occQuery{fi, o, "last", len(req.Steps)})
				req.Steps = append(req.Steps, harness.Call("textDocument/definition", harness.TDPos(f.Path, l.EL, l.EC-1)))
			}
		}
	}
	o := env.Exec(req)
	if o.Crash() {
		return violf("crash", "server died: %s\n%s", o.Describe(), showWS(&c.WS))
	}
	if o.Resp.Fatal != "" || o.Resp.InitError != "" {
		return violf("inconclusive", "executor: %s %s", o.Resp.Fatal, o.Resp.InitError)
	}
	nt := false
	for _, q := range qs {
		r := harness.ResultOf(o.Resp, q.step)
		if r == nil {
			return violf("inconclusive", "no result for step %d", q.step)
		}
		f := c.WS.Files[q.file]
		at := spanLoc(f.Path, f.Text, q.occ.Name.Span)
		if r.Error != "" {
			return violf("error", "definition at %s (%s of %q) failed: %s\n%s", at, q.pos, q.occ.Name.Text, r.Error, showWS(&c.WS))
		}
		got, err := parseLocations(r.Result)
		if err != nil {
			return violf("inconclusive", "cannot decode definition result %s", string(r.Result))
		}
		env.Stats.mu.Lock()
		env.Stats.Queries++
		env.Stats.mu.Unlock()
		name := q.occ.Name.Text
		switch {
		case q.occ.Decl != nil:
			want := spanLoc(f.Path, f.Text, q.occ.Decl.Name.Span)
			env.Stats.Class("q-" + q.occ.Decl.Kind.String())
			if q.occ.Func != q.occ.Decl.Func {
				env.Stats.Class("q-upvalue")
				nt = true
			}
			if len(got) != 1 || got[0] != want {
				return violf("local", "definition of %q at %s (%s; bound to the %s declared at %s) returned %s\n%s", name, at, q.pos,
					q.occ.Decl.Kind, want, fmtLocs(got), showWS(&c.WS))
			}
		case len(a.globalDefs[name]) > 0:
			env.Stats.Class("q-global-defined")
			allowed := map[Loc]bool{}
			other := false
			for _, d := range a.globalDefs[name] {
				df := c.WS.Files[d.file]
				allowed[spanLoc(df.Path, df.Text, d.def.Occ.Name.Span)] = true
				if d.file != q.file {
					other = true
				}
			}
			if other {
				env.Stats.Class("q-global-otherfile")
				nt = true
			}
			if len(got) == 0 {
				return violf("global-missing", "definition of global %q at %s (%s) returned nothing although the workspace defines it\n%s", name, at, q.pos, showWS(&c.WS))
			}
			for _, g := range got {
				if !allowed[g] {
					return violf("global-wrong", "definition of global %q at %s (%s) returned %s, which is not a defining assignment of that global\n%s", name, at, q.pos, g, showWS(&c.WS))
				}
			}
		default:
			env.Stats.Class("q-global-undefined")
			if len(got) != 0 {
				return violf("undefined-found", "definition of %q at %s (%s) returned %s although nothing defines it\n%s", name, at, q.pos, fmtLocs(got), showWS(&c.WS))
			}
		}
		// shadowing / redeclaration makes the case non-trivial
		n := 0
		for _, d := range a.bind[q.file].Decls {
			if d.Name.Text == name {
				n++
			}
		}
		if n >= 2 {
			env.Stats.Class("q-name-declared-twice")
			nt = true
		}
	}
	if nt && env.Stats.NT(showWS(&c.WS)) {
		env.Stats.Class("nontrivial")
		env.Stats.Sample(3, map[string]interface{}{"workspace": c.WS.Files, "queries": len(qs)})
	}
	return nil
}

func TestC05(t *testing.T) { runProp(t, "C05", genC05, checkC05) }

var _ = fmt.Sprint
