package props

import (
	"fmt"
	"os"
	"testing"

	"verif/harness"
	"verif/proto"
	"verif/reflua"
)

// TestProbe is a diagnostic aid: VERIF_PROBE_FILE=<lua file> [VERIF_PROBE_METHOD=textDocument/definition]
// prints, for every variable occurrence of the file, what the server answers.
func TestProbe(t *testing.T) {
	path := os.Getenv("VERIF_PROBE_FILE")
	if path == "" {
		t.Skip()
	}
	method := os.Getenv("VERIF_PROBE_METHOD")
	if method == "" {
		method = "textDocument/definition"
	}
	b, _ := os.ReadFile(path)
	ws := Workspace{Files: []WSFile{{Path: "main.lua", Text: string(b)}}}
	res, bind := reflua.Analyze(string(b))
	fmt.Println("verdict:", res.Verdict, res.Err, res.Context)
	req := &proto.Request{Cmd: "session", Files: ws.protoFiles(), InitOptions: harness.J(harness.AllOn())}
	req.Steps = ws.openAll()
	type q struct {
		o    *reflua.Occ
		step int
	}
	var qs []q
	if bind != nil {
		for _, o := range bind.Occs {
			if o.Name.Off == o.Name.End {
				continue
			}
			l := spanLoc("main.lua", string(b), o.Name.Span)
			qs = append(qs, q{o, len(req.Steps)})
			params := harness.M{"textDocument": harness.M{"uri": harness.URI("main.lua")}, "position": harness.Pos(l.SL, l.SC)}
			if method == "textDocument/references" {
				params["context"] = harness.M{"includeDeclaration": true}
			}
			req.Steps = append(req.Steps, harness.Call(method, harness.J(params)))
		}
	}
	o := (&Env{Fresh: true, Stats: stats}).Exec(req)
	if o.Crash() {
		fmt.Println(o.Describe())
		return
	}
	for _, p := range o.Resp.Pushes {
		for _, d := range p.Diags {
			fmt.Printf("DIAG %s %d:%d-%d:%d %s\n", p.URI, d.SL, d.SC, d.EL, d.EC, d.Message)
		}
	}
	for _, x := range qs {
		r := harness.ResultOf(o.Resp, x.step)
		l := spanLoc("main.lua", string(b), x.o.Name.Span)
		decl := "global"
		if x.o.Decl != nil {
			decl = spanLoc("main.lua", string(b), x.o.Decl.Name.Span).String()
		}
		fmt.Printf("%-8s %s ref=%s -> %s %s\n", x.o.Name.Text, l, decl, string(r.Result), r.Error)
	}
}
