package props

import (
	"strings"
	"testing"

	"pgregory.net/rapid"

	"verif/harness"
	"verif/luagen"
	"verif/proto"
	"verif/reflua"
)

// C06 — find-references returns exactly the occurrences of the same variable.

type C06Case struct {
	WS Workspace `json:"ws"`
}

func init() { register("C06", checkC06) }

// genC06: workspaces as in C05, but same-name initialisers, for bounds and right-hand sides are
// generated (only go-to-definition *at* such a read is a known finding; references asked elsewhere must
// still list those reads)
func genC06(t *rapid.T) C06Case {
	o := semGenOpts{MaxFiles: 3, Naming: luagen.NamesTiny, Methods: true, GlobalsRW: true}
	if rapid.IntRange(0, 3).Draw(t, "namingMixed") == 0 {
		o.Naming = luagen.NamesMixed
	}
	o.NoFuncInForBounds = gate("c05-func-in-for-bounds")
	o.NoFuncInTargetIndex = gate("c05-func-in-target")
	// known finding C07-F1 (the analysis registers the names of a multi-name `local` before it evaluates
	// the later initialisers) also makes references miss such reads: local initialisers stay excluded
	// while it is listed, except the bare `local v = v`
	o.NoSameName = gate("c07-same-name-init")
	o.SameNameBareInit = true
	o.SameNameOutsideInit = true
	ws := genWorkspace(t, o)
	// module files: some files start with `local M = {}` and end with `return M` — the same local name
	// at the same position in several files, each being its file's return value
	if rapid.IntRange(0, 2).Draw(t, "moduleFiles") == 0 {
		for i := range ws.Files {
			txt := "local M = { }\n" + ws.Files[i].Text
			if !strings.HasSuffix(txt, "\n") {
				txt += "\n"
			}
			txt += "M.x = 1\nreturn M\n"
			if res := reflua.Parse(txt); res.Verdict == reflua.Valid {
				ws.Files[i].Text = txt
			}
		}
	}
	return C06Case{WS: ws}
}

// globalDefFiles: number of distinct files holding a defining assignment of the global.
func (a *analysed) globalDefFiles(name string) int {
	fs := map[int]bool{}
	for _, d := range a.globalDefs[name] {
		fs[d.file] = true
	}
	return len(fs)
}

// occClass: the set of locations of the variable an occurrence belongs to.
func (a *analysed) occClass(file int, o *reflua.Occ) []Loc {
	var out []Loc
	if o.Decl != nil {
		f := a.ws.Files[file]
		for _, x := range o.Decl.Occs {
			if x.Name.Off == x.Name.End {
				continue
			}
			out = append(out, spanLoc(f.Path, f.Text, x.Name.Span))
		}
		return out
	}
	for fi, b := range a.bind {
		f := a.ws.Files[fi]
		for _, x := range b.Occs {
			if x.Decl == nil && x.Name.Text == o.Name.Text {
				out = append(out, spanLoc(f.Path, f.Text, x.Name.Span))
			}
		}
	}
	return out
}

func refParams(rel string, line, ch int) []byte {
	return harness.J(harness.M{"textDocument": harness.M{"uri": harness.URI(rel)}, "position": harness.Pos(line, ch),
		"context": harness.M{"includeDeclaration": true}})
}

func checkC06(c C06Case, env *Env) *Violation {
	a, v := analyse(&c.WS)
	if v != nil {
		return v
	}
	req := &proto.Request{Cmd: "session", Files: c.WS.protoFiles(), InitOptions: harness.J(harness.Flags(1))}
	req.Steps = c.WS.openAll()
	var qs []occQuery
	for fi, b := range a.bind {
		f := c.WS.Files[fi]
		for _, o := range b.Occs {
			if o.Name.Off == o.Name.End {
				continue
			}
			if dcOcc(o) || (o.Decl != nil && o.Decl.Kind == reflua.DSelf) {
				env.Stats.mu.Lock()
				env.Stats.DontCare++
				env.Stats.mu.Unlock()
				continue
			}
			if (gate("c05-bracket-quote") && kfBracketQuote(f.Text, o.Name.Off)) || (gate("c05-glued-bracket") && kfGluedBracket(f.Text, o.Name.Off)) {
				excludedIn(env)
				continue
			}
			if gate("c05-same-name-init") && (o.InInitOfSameName || o.InForBoundsOfSameName || o.InAssignOfSameName) {
				// known finding C05-F1 / F2: the symbol under the cursor is resolved wrongly *at* such a
				// read; it is not used as query position (it stays an expected member of other answers)
				excludedIn(env)
				continue
			}
			if o.Decl == nil && len(a.globalDefs[o.Name.Text]) == 0 {
				// a global that no file defines: there is no symbol to collect references of; the
				// property is silent about it
				env.Stats.mu.Lock()
				env.Stats.DontCare++
				env.Stats.mu.Unlock()
				continue
			}
			if o.Decl == nil && gate("c06-global-two-files") && len(a.globalDefs[o.Name.Text]) > 1 {
				excludedIn(env)
				continue
			}
			l := spanLoc(f.Path, f.Text, o.Name.Span)
			qs = append(qs, occQuery{fi, o, "start", len(req.Steps)})
			req.Steps = append(req.Steps, harness.Call("textDocument/references", refParams(f.Path, l.SL, l.SC)))
		}
	}
	o := env.Exec(req)
	if o.Crash() {
		return violf("crash", "server died: %s\n%s", o.Describe(), showWS(&c.WS))
	}
	if o.Resp.Fatal != "" || o.Resp.InitError != "" {
		return violf("inconclusive", "executor: %s %s", o.Resp.Fatal, o.Resp.InitError)
	}
	nt := false
	for _, q := range qs {
		r := harness.ResultOf(o.Resp, q.step)
		if r == nil {
			return violf("inconclusive", "no result for step %d", q.step)
		}
		f := c.WS.Files[q.file]
		at := spanLoc(f.Path, f.Text, q.occ.Name.Span)
		if r.Error != "" {
			return violf("error", "references at %s failed: %s\n%s", at, r.Error, showWS(&c.WS))
		}
		got, err := parseLocations(r.Result)
		if err != nil {
			return violf("inconclusive", "cannot decode references result %s", string(r.Result))
		}
		env.Stats.mu.Lock()
		env.Stats.Queries++
		env.Stats.mu.Unlock()
		want := a.occClass(q.file, q.occ)
		// a global nobody defines: the property only speaks of variables; the occurrences of an
		// undefined global are still "the occurrences of that global"
		gs, ws := locSet(got), locSet(want)
		kind := "global"
		if q.occ.Decl != nil {
			kind = q.occ.Decl.Kind.String()
		}
		env.Stats.Class("q-" + kind)
		for l := range gs {
			if !ws[l] {
				return violf("extra-"+kindClass(kind), "references of %s %q at %s contain %s, which is not an occurrence of that variable\nexpected %s\ngot      %s\n%s",
					kind, q.occ.Name.Text, at, l, fmtLocs(want), fmtLocs(got), showWS(&c.WS))
			}
		}
		for l := range ws {
			if !gs[l] {
				return violf("missing-"+kindClass(kind), "references of %s %q at %s miss the occurrence %s\nexpected %s\ngot      %s\n%s",
					kind, q.occ.Name.Text, at, l, fmtLocs(want), fmtLocs(got), showWS(&c.WS))
			}
		}
		if len(got) != len(gs) {
			return violf("duplicate", "references of %q at %s contain duplicates: %s\n%s", q.occ.Name.Text, at, fmtLocs(got), showWS(&c.WS))
		}
		hasWrite := false
		if q.occ.Decl != nil {
			for _, x := range q.occ.Decl.Occs {
				if x.Kind == reflua.OWrite {
					hasWrite = true
				}
			}
		}
		if len(want) >= 3 && hasWrite {
			env.Stats.Class("q-class>=3-with-write")
			nt = true
		}
		if q.occ.Decl == nil && len(want) >= 2 {
			files := map[string]bool{}
			for _, l := range want {
				files[l.File] = true
			}
			if len(files) > 1 {
				env.Stats.Class("q-global-multifile")
				nt = true
			}
		}
	}
	if nt && env.Stats.NT(showWS(&c.WS)) {
		env.Stats.Class("nontrivial")
		env.Stats.Sample(3, map[string]interface{}{"workspace": c.WS.Files, "queries": len(qs)})
	}
	return nil
}

func kindClass(kind string) string {
	if kind == "global" {
		return "global"
	}
	return "local"
}

func TestC06(t *testing.T) { runProp(t, "C06", genC06, checkC06) }
