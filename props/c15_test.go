package props

import (
	"encoding/json"
	"fmt"
	"sort"
	"strings"
	"testing"

	"pgregory.net/rapid"

	"verif/harness"
	"verif/proto"
	"verif/reflua"
)

// C15 — annotated types give a variable exactly its declared and inherited members.

type C15Class struct {
	Name    string   `json:"name"`
	Parents []string `json:"parents"`
	Fields  []string `json:"fields"`
	File    int      `json:"file"`
	// Direct: the class block is directly followed by `local <var> = {}` (the variable gets the class type)
	Direct string `json:"direct,omitempty"`
	// Glued: no blank line after the class block — the next annotation block of the file continues the
	// same comment block (several ---@class declarations back to back)
	Glued bool `json:"glued,omitempty"`
	// ExtraMember / ExtraType: in the declaring file a member is assigned through the class's own
	// variable (Direct) with its own `---@type ExtraType` (the documented extension: such members belong
	// to the class)
	ExtraMember string `json:"extraMember,omitempty"`
	ExtraType   string `json:"extraType,omitempty"`
}

type C15Alias struct {
	Name   string `json:"name"`
	Target string `json:"target"` // class or alias name
	File   int    `json:"file"`
}

type C15Var struct {
	Name string `json:"name"`
	Type string `json:"type"` // class or alias name
	Wrap string `json:"wrap"` // "" | "array" | "map" | "direct"
}

type C15Case struct {
	Classes []C15Class `json:"classes"`
	Aliases []C15Alias `json:"aliases"`
	Vars    []C15Var   `json:"vars"`
	NFiles  int        `json:"nfiles"`
	Cyclic  bool       `json:"cyclic"`
	// sharedLocs (filled by files): location of every ---@field line whose name several classes may declare -> class
	sharedLocs map[Loc]string
}

func init() { register("C15", checkC15) }

func genC15(t *rapid.T) C15Case {
	var c C15Case
	c.NFiles = rapid.IntRange(1, 3).Draw(t, "nfiles")
	nc := rapid.IntRange(2, 8).Draw(t, "nclasses")
	c.Cyclic = rapid.IntRange(0, 4).Draw(t, "cyclic") == 0
	fctr := 0
	for i := 0; i < nc; i++ {
		cl := C15Class{Name: fmt.Sprintf("Cls%d", i+1), File: rapid.IntRange(0, c.NFiles-1).Draw(t, "classFile")}
		nf := rapid.IntRange(0, 3).Draw(t, "nfields")
		for j := 0; j < nf; j++ {
			fctr++
			cl.Fields = append(cl.Fields, fmt.Sprintf("f%c%d", 'a'+byte(fctr%26), fctr))
		}
		// field names that several classes of one hierarchy may declare (a child overriding a parent's
		// field, both arms of a diamond re-declaring a base field)
		for _, sh := range rapid.SliceOfNDistinct(rapid.SampledFrom([]string{"sh1", "sh2", "sh3"}), 0, 2, func(s string) string { return s }).Draw(t, "sharedFields") {
			cl.Fields = append(cl.Fields, sh)
		}
		np := rapid.IntRange(0, 2).Draw(t, "nparents")
		for j := 0; j < np; j++ {
			var p int
			if c.Cyclic {
				p = rapid.IntRange(0, nc-1).Draw(t, "parentAny") // may point forward or at itself
			} else if i > 0 {
				p = rapid.IntRange(0, i-1).Draw(t, "parentEarlier") // acyclic: chains, multiple inheritance, diamonds
			} else {
				continue
			}
			pn := fmt.Sprintf("Cls%d", p+1)
			dup := false
			for _, q := range cl.Parents {
				if q == pn {
					dup = true
				}
			}
			if !dup {
				cl.Parents = append(cl.Parents, pn)
			}
		}
		cl.Glued = rapid.IntRange(0, 3).Draw(t, "glued") == 0
		c.Classes = append(c.Classes, cl)
	}
	na := rapid.IntRange(0, 3).Draw(t, "naliases")
	for i := 0; i < na; i++ {
		a := C15Alias{Name: fmt.Sprintf("Ali%d", i+1), File: rapid.IntRange(0, c.NFiles-1).Draw(t, "aliasFile")}
		if i > 0 && rapid.Bool().Draw(t, "aliasOfAlias") {
			a.Target = fmt.Sprintf("Ali%d", rapid.IntRange(1, i).Draw(t, "aliasTarget"))
		} else {
			a.Target = fmt.Sprintf("Cls%d", rapid.IntRange(1, nc).Draw(t, "aliasClass"))
		}
		c.Aliases = append(c.Aliases, a)
	}
	if c.Cyclic && rapid.Bool().Draw(t, "aliasCycle") {
		c.Aliases = append(c.Aliases, C15Alias{Name: "CycA", Target: "CycB", File: 0}, C15Alias{Name: "CycB", Target: "CycA", File: 0})
	}
	nv := rapid.IntRange(1, 5).Draw(t, "nvars")
	for i := 0; i < nv; i++ {
		v := C15Var{Name: fmt.Sprintf("var%d", i+1)}
		v.Wrap = rapid.SampledFrom([]string{"", "", "array", "map", "direct"}).Draw(t, "wrap")
		if v.Wrap == "direct" {
			k := rapid.IntRange(0, nc-1).Draw(t, "directClass")
			if c.Classes[k].Direct != "" || c.Classes[k].File != 0 {
				v.Wrap = ""
			} else {
				c.Classes[k].Direct = v.Name
				v.Type = c.Classes[k].Name
			}
		}
		if v.Wrap != "direct" {
			names := []string{}
			for _, cl := range c.Classes {
				names = append(names, cl.Name)
			}
			for _, a := range c.Aliases {
				names = append(names, a.Name)
			}
			v.Type = rapid.SampledFrom(names).Draw(t, "varType")
		}
		c.Vars = append(c.Vars, v)
	}
	for k := range c.Classes {
		if c.Classes[k].Direct != "" && !c.Cyclic && rapid.Bool().Draw(t, "extraMember") {
			c.Classes[k].ExtraMember = fmt.Sprintf("ex%d", k+1)
			c.Classes[k].ExtraType = c.Classes[rapid.IntRange(0, nc-1).Draw(t, "extraType")].Name
		}
	}
	return c
}

// closure: fields(C) = own ∪ fields(parents), with a visited set; aliases are looked through.
func (c *C15Case) closure(typeName string) (fields map[string]string, edges int) {
	classes := map[string]*C15Class{}
	for i := range c.Classes {
		classes[c.Classes[i].Name] = &c.Classes[i]
	}
	aliases := map[string]string{}
	for _, a := range c.Aliases {
		aliases[a.Name] = a.Target
	}
	seenAlias := map[string]bool{}
	for {
		tg, ok := aliases[typeName]
		if !ok {
			break
		}
		if seenAlias[typeName] {
			return map[string]string{}, 0 // alias cycle: no class
		}
		seenAlias[typeName] = true
		typeName = tg
	}
	fields = map[string]string{}
	visited := map[string]bool{}
	var walk func(n string, depth int)
	walk = func(n string, depth int) {
		cl := classes[n]
		if cl == nil || visited[n] {
			return
		}
		visited[n] = true
		if depth > edges {
			edges = depth
		}
		for _, f := range cl.Fields {
			if _, ok := fields[f]; !ok {
				fields[f] = n
			}
		}
		for _, p := range cl.Parents {
			walk(p, depth+1)
		}
	}
	walk(typeName, 0)
	return fields, edges
}

// closureClasses: the classes whose fields closure(typeName) collects.
func closureClasses(c *C15Case, typeName string) map[string]bool {
	classes := map[string]*C15Class{}
	for i := range c.Classes {
		classes[c.Classes[i].Name] = &c.Classes[i]
	}
	aliases := map[string]string{}
	for _, a := range c.Aliases {
		aliases[a.Name] = a.Target
	}
	seenAlias := map[string]bool{}
	for {
		tg, ok := aliases[typeName]
		if !ok {
			break
		}
		if seenAlias[typeName] {
			return map[string]bool{}
		}
		seenAlias[typeName] = true
		typeName = tg
	}
	visited := map[string]bool{}
	var walk func(n string)
	walk = func(n string) {
		cl := classes[n]
		if cl == nil || visited[n] {
			return
		}
		visited[n] = true
		for _, p := range cl.Parents {
			walk(p)
		}
	}
	walk(typeName)
	return visited
}

func (c *C15Case) files(mode string) (Workspace, map[string]Loc, map[string][2]int) {
	// returns the workspace, the location of every ---@field name, and per variable the query position
	names := []string{"main.lua", "types1.lua", "types2.lua"}
	bufs := make([]strings.Builder, c.NFiles)
	lines := make([]int, c.NFiles)
	fieldLoc := map[string]Loc{}
	c.sharedLocs = map[Loc]string{}
	w := func(fi int, s string) {
		bufs[fi].WriteString(s + "\n")
		lines[fi]++
	}
	for ci, cl := range c.Classes {
		fi := cl.File
		// which class a variable gets that directly follows a block of several classes is not
		// documented: the block in front of a class with a Direct variable always ends in a blank line
		for _, nx := range c.Classes[ci+1:] {
			if nx.File == fi {
				if nx.Direct != "" {
					cl.Glued = false
				}
				break
			}
		}
		hdr := "---@class " + cl.Name
		if len(cl.Parents) > 0 {
			hdr += " : " + strings.Join(cl.Parents, ", ")
		}
		w(fi, hdr)
		for _, f := range cl.Fields {
			l := "---@field " + f + " number"
			fieldLoc[f] = Loc{names[fi], lines[fi], 10, lines[fi], 10 + len(f)}
			if strings.HasPrefix(f, "sh") {
				c.sharedLocs[fieldLoc[f]] = cl.Name
			}
			w(fi, l)
		}
		if cl.Direct != "" {
			w(fi, "local "+cl.Direct+" = {}")
			if cl.ExtraMember != "" {
				w(fi, "---@type "+cl.ExtraType)
				w(fi, cl.Direct+"."+cl.ExtraMember+" = nil")
			}
			w(fi, "")
		} else if !cl.Glued {
			w(fi, "")
		}
	}
	for fi := 0; fi < c.NFiles; fi++ {
		w(fi, "")
	}
	for _, a := range c.Aliases {
		w(a.File, "---@alias "+a.Name+" "+a.Target)
		w(a.File, "")
	}
	queries := map[string][2]int{}
	for _, v := range c.Vars {
		switch v.Wrap {
		case "":
			w(0, "---@type "+v.Type)
			w(0, "local "+v.Name)
		case "array":
			w(0, "---@type "+v.Type+"[]")
			w(0, "local "+v.Name)
		case "map":
			w(0, "---@type table<string, "+v.Type+">")
			w(0, "local "+v.Name)
		}
		w(0, "")
	}
	access := func(v C15Var) string {
		switch v.Wrap {
		case "array":
			return v.Name + "[1]"
		case "map":
			return v.Name + "[\"k\"]"
		}
		return v.Name
	}
	if mode == "completion" {
		for i, v := range c.Vars {
			l := fmt.Sprintf("local z%d = %s.f", i, access(v))
			queries[v.Name] = [2]int{lines[0], len(l)}
			w(0, l)
		}
		for k, cl := range c.Classes {
			if cl.ExtraMember != "" {
				l := fmt.Sprintf("local zx%d = %s.%s.f", k, cl.Direct, cl.ExtraMember)
				queries["extra:"+cl.Name] = [2]int{lines[0], len(l)}
				w(0, l)
			}
		}
	}
	var ws Workspace
	for i := 0; i < c.NFiles; i++ {
		ws.Files = append(ws.Files, WSFile{Path: names[i], Text: bufs[i].String()})
	}
	return ws, fieldLoc, queries
}

func checkC15(c C15Case, env *Env) *Violation {
	allFields := map[string]bool{}
	for _, cl := range c.Classes {
		for _, f := range cl.Fields {
			allFields[f] = true
		}
	}
	// session 1: member completion
	ws, fieldLoc, queries := c.files("completion")
	for _, f := range ws.Files {
		if res := reflua.Parse(f.Text); res.Verdict != reflua.Valid {
			return violf("inconclusive", "generated file %s not valid: %v\n%s", f.Path, res.Err, f.Text)
		}
	}
	req := &proto.Request{Cmd: "session", Files: ws.protoFiles(), InitOptions: harness.J(harness.Flags(1)), CallTimeoutMs: 20000}
	req.Steps = ws.openAll()
	stepOf := map[string]int{}
	for _, v := range c.Vars {
		q := queries[v.Name]
		stepOf[v.Name] = len(req.Steps)
		req.Steps = append(req.Steps, harness.Call("textDocument/completion", harness.J(harness.M{
			"textDocument": harness.M{"uri": harness.URI("main.lua")}, "position": harness.Pos(q[0], q[1]), "context": harness.M{"triggerKind": 1}})))
	}
	for _, cl := range c.Classes {
		if cl.ExtraMember != "" {
			q := queries["extra:"+cl.Name]
			stepOf["extra:"+cl.Name] = len(req.Steps)
			req.Steps = append(req.Steps, harness.Call("textDocument/completion", harness.J(harness.M{
				"textDocument": harness.M{"uri": harness.URI("main.lua")}, "position": harness.Pos(q[0], q[1]), "context": harness.M{"triggerKind": 1}})))
		}
	}
	o := env.Exec(req)
	if o.Crash() {
		return violf("crash", "server died or hung on member completion: %s\n%s", o.Describe(), showWS(&ws))
	}
	if o.Resp.Fatal != "" || o.Resp.InitError != "" {
		return violf("inconclusive", "executor: %s %s", o.Resp.Fatal, o.Resp.InitError)
	}
	nt := false
	sorted := func(m map[string]bool) []string {
		var s []string
		for k := range m {
			s = append(s, k)
		}
		sort.Strings(s)
		return s
	}
	for _, v := range c.Vars {
		want, edges := c.closure(v.Type)
		r := harness.ResultOf(o.Resp, stepOf[v.Name])
		if r == nil || r.Error != "" {
			return violf("error", "completion failed for %s", v.Name)
		}
		var cl struct {
			Items []struct {
				Label string `json:"label"`
			} `json:"items"`
		}
		json.Unmarshal(r.Result, &cl)
		got := map[string]bool{}
		for _, it := range cl.Items {
			if allFields[it.Label] {
				got[it.Label] = true
			}
		}
		wantSet := map[string]bool{}
		for f := range want {
			wantSet[f] = true
		}
		if fmt.Sprint(sorted(got)) != fmt.Sprint(sorted(wantSet)) {
			return violf("members", "member completion on %s (typed %s, wrap=%q) offers the fields %v; the class and its parents declare exactly %v\n%s", v.Name, v.Type, v.Wrap, sorted(got), sorted(wantSet), showWS(&ws))
		}
		env.Stats.mu.Lock()
		env.Stats.Queries++
		env.Stats.mu.Unlock()
		env.Stats.Class("var-wrap-" + v.Wrap)
		if edges >= 2 || c.Cyclic {
			nt = true
		}
	}
	for _, cl := range c.Classes {
		if cl.ExtraMember == "" {
			continue
		}
		want, _ := c.closure(cl.ExtraType)
		r := harness.ResultOf(o.Resp, stepOf["extra:"+cl.Name])
		if r == nil || r.Error != "" {
			return violf("error", "completion failed for the extra member of %s", cl.Name)
		}
		var cl2 struct {
			Items []struct {
				Label string `json:"label"`
			} `json:"items"`
		}
		json.Unmarshal(r.Result, &cl2)
		got := map[string]bool{}
		for _, it := range cl2.Items {
			if allFields[it.Label] {
				got[it.Label] = true
			}
		}
		wantSet := map[string]bool{}
		for f := range want {
			wantSet[f] = true
		}
		if fmt.Sprint(sorted(got)) != fmt.Sprint(sorted(wantSet)) {
			return violf("extra-member", "%s.%s was assigned in the declaring file under `---@type %s`; member completion on it offers the fields %v, that class declares exactly %v\n%s",
				cl.Direct, cl.ExtraMember, cl.ExtraType, sorted(got), sorted(wantSet), showWS(&ws))
		}
		env.Stats.Class("extra-typed-member")
	}
	// session 2: member go-to-definition (separate file text: member names used in the file are echoed by completion)
	ws2, _, _ := c.files("definition")
	var b strings.Builder
	b.WriteString(ws2.Files[0].Text)
	type dq struct {
		v       C15Var
		field   string
		inClose bool
		line    int
		col     int
	}
	var dqs []dq
	line := strings.Count(ws2.Files[0].Text, "\n")
	fieldsSorted := sorted(allFields)
	for _, v := range c.Vars {
		want, _ := c.closure(v.Type)
		acc := v.Name
		switch v.Wrap {
		case "array":
			acc += "[1]"
		case "map":
			acc += "[\"k\"]"
		}
		// every field of the closure and one foreign field
		foreignDone := false
		for _, f := range fieldsSorted {
			_, in := want[f]
			if !in {
				if foreignDone {
					continue
				}
				foreignDone = true
			}
			l := "print(" + acc + "."
			dqs = append(dqs, dq{v, f, in, line, len(l) + 1})
			b.WriteString(l + f + ")\n")
			line++
		}
	}
	ws2.Files[0].Text = b.String()
	if res := reflua.Parse(ws2.Files[0].Text); res.Verdict != reflua.Valid {
		return violf("inconclusive", "generated file not valid: %v", res.Err)
	}
	req2 := &proto.Request{Cmd: "session", Files: ws2.protoFiles(), InitOptions: harness.J(harness.Flags(1)), CallTimeoutMs: 20000}
	req2.Steps = ws2.openAll()
	first := len(req2.Steps)
	for _, q := range dqs {
		req2.Steps = append(req2.Steps, harness.Call("textDocument/definition", harness.TDPos("main.lua", q.line, q.col)))
	}
	o2 := env.Exec(req2)
	if o2.Crash() {
		return violf("crash", "server died or hung on member go-to-definition: %s\n%s", o2.Describe(), showWS(&ws2))
	}
	if o2.Resp.Fatal != "" || o2.Resp.InitError != "" {
		return violf("inconclusive", "executor: %s %s", o2.Resp.Fatal, o2.Resp.InitError)
	}
	fieldLines := map[string]bool{}
	for _, l := range fieldLoc {
		fieldLines[fmt.Sprintf("%s:%d", l.File, l.SL)] = true
	}
	for i, q := range dqs {
		r := harness.ResultOf(o2.Resp, first+i)
		if r == nil || r.Error != "" {
			return violf("error", "definition failed")
		}
		locs, _ := parseLocations(r.Result)
		if q.inClose && strings.HasPrefix(q.field, "sh") {
			// a name declared by several classes: one ---@field line of that name, of a class of the closure
			okLoc := false
			if len(locs) == 1 {
				if cn, isField := c.sharedLocs[locs[0]]; isField && textAt(&ws2, locs[0]) == q.field {
					_, okLoc = closureClasses(&c, q.v.Type)[cn]
				}
			}
			if !okLoc {
				return violf("member-def-shared", "go-to-definition on %s.%s (type %s, wrap=%q) returns %s; the member is declared by `---@field %s` lines of classes in the hierarchy of the type\n%s", q.v.Name, q.field, q.v.Type, q.v.Wrap, fmtLocs(locs), q.field, showWS(&ws2))
			}
			env.Stats.Class("definition-of-field-declared-by-several-classes")
		} else if q.inClose {
			want := fieldLoc[q.field]
			if len(locs) != 1 || locs[0] != want {
				return violf("member-def", "go-to-definition on %s.%s (type %s, wrap=%q) returns %s; the member is declared by `---@field %s` at %s\n%s", q.v.Name, q.field, q.v.Type, q.v.Wrap, fmtLocs(locs), q.field, want, showWS(&ws2))
			}
		} else {
			for _, l := range locs {
				if fieldLines[fmt.Sprintf("%s:%d", l.File, l.SL)] {
					return violf("foreign-member-def", "go-to-definition on %s.%s resolves to the ---@field line %s although %s is not a member of %s or its parents\n%s", q.v.Name, q.field, l, q.field, q.v.Type, showWS(&ws2))
				}
			}
		}
		env.Stats.mu.Lock()
		env.Stats.Queries++
		env.Stats.mu.Unlock()
	}
	if c.Cyclic {
		env.Stats.Class("cyclic-graph")
	}
	if nt && env.Stats.NT(fmt.Sprint(c)) {
		env.Stats.Class("nontrivial")
		env.Stats.Sample(3, map[string]interface{}{"case": c, "main.lua": ws.Files[0].Text})
	}
	return nil
}

func TestC15(t *testing.T) { runProp(t, "C15", genC15, checkC15) }
