package props

import (
	"fmt"
	"os"
	"testing"
)

func TestMain(m *testing.M) { RunMain(m) }

// TestReplay re-decides one saved case (flag -replay). Prints REPLAY-VIOLATION / REPLAY-OK.
func TestReplay(t *testing.T) {
	if *replayFlag == "" {
		t.Skip("no -replay file")
	}
	openAllGates()
	rf, v := ReplayOne(*replayFlag)
	if v == nil {
		fmt.Println("REPLAY-OK", *replayFlag)
		return
	}
	if v.Class == "bad-replay" || v.Class == "inconclusive" {
		fmt.Printf("REPLAY-INCONCLUSIVE %s: %s\n", *replayFlag, v.Msg)
		os.Exit(2)
	}
	id := ""
	if rf != nil {
		id = rf.Property
	}
	fmt.Printf("REPLAY-VIOLATION property=%s class=%s file=%s\n%s\n", id, v.Class, *replayFlag, v.Msg)
	t.Fail()
}
