//go:build verif

package props

// Native (coverage-guided) fuzz targets of the thorough tier. They run LuaHelper's parser and
// annotation parser inside the fuzzing process (package verif/exec/lhlib), because Go's coverage
// guidance only sees code of the process that is fuzzed. The oracles are the ones of the rapid
// properties; a failing input is converted into a replay file by cmd/vcheck.

import (
	"encoding/json"
	"os"
	"path/filepath"
	"strings"
	"testing"

	"pgregory.net/rapid"

	"verif/exec/lhlib"
	"verif/proto"
	"verif/reflua"
)

func init() {
	inprocExec = func(req *proto.Request) *proto.Response {
		var r proto.Response
		switch req.Cmd {
		case "parse":
			r = lhlib.RunParse(req)
		case "annot":
			r = lhlib.RunAnnot(req)
		}
		return &r
	}
}

var fuzzSeedsLua = []string{
	"", "x = [=", "x = [==", "local s = 'abc\\", "local s = \"abc\\\n", "--[==[\n]]", "x = 0x", "x = 1e", "x = 1e400", "x = 0x1p-3", "x = 3LL", "x = 0xffULL",
	"local a <close>, b <close> = f(), g()", "goto a ::a:: goto b ::b::", "a, f() = 1, 2", "(a) = 1", "x = \"\\300\"", "x = \"\\u{7FFFFFFF}\"", "x = \"\\z  \n  y\"",
	"repeat return until a", "for i = 1, 2 do local function i() end end", "function t.a.b:c(...) return ... end", "x = a.b[1]:m{1}'s'\"t\"[[u]]",
	"#!shebang\nreturn", "\xef\xbb\xbfprint(1)", "if a then elseif b then else end", "x = -2^-3 // 4 ~ 5 << 6 .. 7 < 8 and 9 or not 10",
	"local function f(a, ...) local t = {[1]=2, x=3; 4, ...} return #t, -a end", "::l1:: do ::l2:: goto l1 end", "x = [==[\n]]\n]==] y = 1",
	"while true do break end repeat local z = 1 until z", "local x <const>, y <close> = 1, nil",
}

func addLuaSeeds(f *testing.F) {
	for _, s := range fuzzSeedsLua {
		f.Add([]byte(s))
	}
	filepath.Walk("/repo/luahelper-lsp/testdata", func(p string, info os.FileInfo, err error) error {
		if err == nil && !info.IsDir() && strings.HasSuffix(p, ".lua") && info.Size() < 4096 {
			if b, e := os.ReadFile(p); e == nil {
				f.Add(b)
			}
		}
		return nil
	})
	for _, kf := range LoadKnown().Findings {
		if kf.Property != "C03" && kf.Property != "C01" {
			continue
		}
		if rf, err := loadReplayText("/verif/" + kf.Witness); err == nil && rf != "" {
			f.Add([]byte(rf))
		}
	}
}

// FuzzParseFault (C01): arbitrary bytes as the text of a Lua file; the lexer / parser must neither
// die nor swallow an internal fault in its recover() (verif hook) — the "silently abandons the
// analysis of a file" clause. A panic outside the recover kills the fuzz worker, which Go's fuzzer
// records as a failing input.
func FuzzParseFault(f *testing.F) {
	addLuaSeeds(f)
	f.Fuzz(func(t *testing.T, data []byte) {
		if len(data) > 1<<14 {
			return
		}
		o := inprocExec(&proto.Request{Cmd: "parse", Text: data})
		if len(o.Recovered) > 0 {
			t.Fatalf("VERIF-FUZZ property=C01 class=swallowed-panic: the parser swallowed an internal fault and abandoned the analysis of the file: %v\n--- text:\n%q", o.Recovered, string(data))
		}
	})
}

// FuzzParseText (C03): arbitrary bytes as the text of a Lua file; a text the reference recogniser
// classifies valid gets no syntax error, an invalid one at least one (don't-care classes as in
// TestC03: context-only programs, bytes >= 0x80 outside strings and comments).
func FuzzParseText(f *testing.F) {
	addLuaSeeds(f)
	st := &Stats{Classes: map[string]int{}, ntSet: map[uint64]struct{}{}}
	f.Fuzz(func(t *testing.T, data []byte) {
		if len(data) > 1<<14 {
			return
		}
		text := string(data)
		if gate("c03-unknown-escape") && strings.Contains(text, "\\") {
			res, _ := reflua.Analyze(text)
			if res.Verdict == reflua.Invalid && res.Err != nil && isEscapeError(res.Err.Error()) {
				return // known finding C03-F3 (only an escape sequence makes the text invalid here)
			}
		}
		if res, _ := reflua.Analyze(text); res.Verdict == reflua.Invalid && res.Err != nil && strings.Contains(res.Err.Error(), "malformed number") {
			// don't-care: letters glued to a numeral (`0or`, `1then`). Reference Lua reads one malformed
			// number; LuaHelper deliberately splits them (its own test TestParseJitNumber requires
			// `left_time > 0then` to be accepted), and the property quantifies over token sequences
			// separated by white space. Malformed numerals proper (1e, 0x, 3x) stay covered by TestC03.
			return
		}
		if v := checkC03(C03Case{Text: text, Origin: "fuzz"}, &Env{Stats: st}); v != nil && v.Class != "inconclusive" {
			t.Fatalf("VERIF-FUZZ property=C03 class=%s: %s", v.Class, v.Msg)
		}
	})
}

func isEscapeError(msg string) bool {
	for _, k := range []string{"escape", "\\u{", "UTF-8 value too large", "hexadecimal digit"} {
		if strings.Contains(msg, k) {
			return true
		}
	}
	return false
}

// FuzzAnnot: the fuzzer's bytes drive the annotation-line generator of TestC16 (rapid.MakeFuzz), so
// every input is a conforming line set; oracle = parts (a)-(c) of C16 on the annotation parser
// (accepted, documented structure, print / re-read round trip).
func FuzzAnnot(f *testing.F) {
	st := &Stats{Classes: map[string]int{}, ntSet: map[uint64]struct{}{}}
	f.Fuzz(rapid.MakeFuzz(func(t *rapid.T) {
		c := genC16(t)
		c.Corrupt = -1
		linesOnly = true
		if v := checkC16(c, &Env{Stats: st}); v != nil && v.Class != "inconclusive" {
			var ls []string
			for _, l := range c.Lines {
				ls = append(ls, l.Text)
			}
			t.Fatalf("VERIF-FUZZ property=C16 class=%s: %s\nVERIF-FUZZ-LINES %q", v.Class, v.Msg, ls)
		}
	}))
}

// loadReplayText extracts the Lua text of a saved C03 / C01 case (first file), "" if there is none.
func loadReplayText(path string) (string, error) {
	b, err := os.ReadFile(path)
	if err != nil {
		return "", err
	}
	var rf struct {
		Case struct {
			Text  string `json:"text"`
			Files []struct {
				Data []byte `json:"data"`
			} `json:"files"`
		} `json:"case"`
	}
	if err := json.Unmarshal(b, &rf); err != nil {
		return "", err
	}
	if rf.Case.Text != "" {
		return rf.Case.Text, nil
	}
	if len(rf.Case.Files) > 0 {
		return string(rf.Case.Files[0].Data), nil
	}
	return "", nil
}
