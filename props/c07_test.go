package props

import (
	"fmt"
	"sort"
	"strings"
	"testing"

	"pgregory.net/rapid"

	"verif/harness"
	"verif/luagen"
	"verif/proto"
	"verif/reflua"
	"verif/refmodel"
)

// C07 — undefined-variable and unused-local warnings agree with the actual bindings.

type C07Case struct {
	WS Workspace `json:"ws"`
	// Mode: "flags" (client flags) or "json" (luahelper.json with ignore lists)
	Mode string `json:"mode"`
	// IgnoreVars: names listed in IgnoreModules (json mode)
	IgnoreVars []string `json:"ignoreVars,omitempty"`
	// FileVars: IgnoreFileVars entries (json mode): in a file whose path contains File, reads of the
	// names in Vars are not reported
	FileVars []C07FileVars `json:"fileVars,omitempty"`
}

type C07FileVars struct {
	File string   `json:"File"`
	Vars []string `json:"Vars"`
}

func init() { register("C07", checkC07) }

var sysNotUse = map[string]bool{"assert": true, "collectgarbage": true, "dofile": true, "error": true, "getmetatable": true, "ipairs": true,
	"load": true, "loadfile": true, "next": true, "pairs": true, "pcall": true, "print": true, "rawequal": true, "rawget": true, "rawlen": true,
	"rawset": true, "require": true, "select": true, "setmetatable": true, "tonumber": true, "tostring": true, "type": true, "xpcall": true,
	"coroutine": true, "debug": true, "io": true, "file": true, "math": true, "os": true, "package": true, "string": true, "table": true}

func genC07(t *rapid.T) C07Case {
	n := rapid.IntRange(1, 3).Draw(t, "nfiles")
	var ws Workspace
	for i := 0; i < n; i++ {
		cfg := luagen.DefaultConfig()
		cfg.Naming = luagen.NamesMixed
		cfg.Methods = true
		cfg.Goto = true
		cfg.NoSameNameInit = gate("c05-same-name-init") || gate("c07-same-name-init")
		cfg.SameNameForOK = true // the known findings concern local initialisers; for bounds are analysed correctly
		cfg.NoFuncInForBounds = gate("c05-func-in-for-bounds")
		cfg.NoFuncInTargetIndex = gate("c05-func-in-target")
		// Undef1/Undef2 are never assigned anywhere: reads of them are the expected type-2 warnings
		cfg.Globals = []string{"G1", "G2", "gfun", "Gtab", "Undef1", "Undef2"}
		cfg.Builtins = builtinNames
		cfg.Prefix = fmt.Sprintf("f%d", i)
		cfg.MaxStats = 12
		toks := luagen.Program(t, cfg)
		// Undef* must never be assigned: turn such writes into reads of a field
		for j := range toks {
			if toks[j].Write && (toks[j].Text == "Undef1" || toks[j].Text == "Undef2") {
				toks[j].Text = "G1"
			}
		}
		src, _ := luagen.RenderSimple(toks)
		ws.Files = append(ws.Files, WSFile{Path: wsFileNames[i], Text: src})
	}
	c := C07Case{WS: ws, Mode: "flags"}
	if rapid.IntRange(0, 3).Draw(t, "jsonMode") == 0 {
		c.Mode = "json"
		if rapid.Bool().Draw(t, "ignoreUndef1") {
			c.IgnoreVars = []string{"Undef1"}
		}
		// per-file ignore lists: distinct File patterns, each with its own Vars
		pats := rapid.Permutation([]string{"main.lua", "util.lua", "sub/", "mod.lua"}).Draw(t, "fileVarPatterns")
		for _, p := range pats[:rapid.IntRange(0, 3).Draw(t, "nFileVars")] {
			c.FileVars = append(c.FileVars, C07FileVars{File: p, Vars: rapid.SampledFrom([][]string{{"Undef1"}, {"Undef2"}, {"Undef1", "Undef2"}, {}}).Draw(t, "fileVars")})
		}
	}
	return c
}

type c07Expect struct {
	key  diagKey
	why  string
	soft bool // don't-care: may or may not be reported
}

func checkC07(c C07Case, env *Env) *Violation {
	a, v := analyse(&c.WS)
	if v != nil {
		return v
	}
	ignored := map[string]bool{}
	for _, n := range c.IgnoreVars {
		ignored[n] = true
	}
	req := &proto.Request{Cmd: "session", Files: c.WS.protoFiles()}
	if c.Mode == "json" {
		cfg := map[string]interface{}{"BaseDir": "./", "ShowWarnFlag": 1, "IgnoreModules": c.IgnoreVars,
			"IgnoreErrorTypes": []int{5, 6, 7, 8, 9, 10, 11, 12, 13, 14, 15, 16, 18, 19, 20, 21, 22, 23, 24, 25}}
		if len(c.FileVars) > 0 {
			cfg["IgnoreFileVars"] = c.FileVars
			env.Stats.Class(fmt.Sprintf("json-file-vars-%d-entries", len(c.FileVars)))
		}
		req.Files = append(req.Files, proto.File{Path: "luahelper.json", Data: harness.J(cfg)})
		req.InitOptions = harness.J(harness.AllOn())
	} else {
		req.InitOptions = harness.J(harness.Flags(1, 2, 3, 4, 17))
	}
	o := env.Exec(req)
	if o.Crash() {
		return violf("crash", "server died: %s\n%s", o.Describe(), showWS(&c.WS))
	}
	if o.Resp.Fatal != "" || o.Resp.InitError != "" {
		return violf("inconclusive", "executor: %s %s", o.Resp.Fatal, o.Resp.InitError)
	}
	got := map[diagKey]string{}
	for uri, ds := range harness.FoldDiags(o.Resp.Pushes, 1<<30) {
		for _, d := range ds {
			switch d.Type {
			case 2, 3, 4, 17:
				got[diagKey{harness.RelOfURI(uri), d.SL, d.SC, d.EL, d.EC, d.Type}] = d.Message
			case 1:
				return violf("inconclusive", "generated file has a syntax diagnostic: %s", d.Message)
			default:
				return violf("other-type", "diagnostic of type %d although only 1,2,3,4,17 are enabled: %s", d.Type, d.Message)
			}
		}
	}
	// expectations
	hard := map[diagKey]string{}
	soft := map[diagKey]bool{}             // may be present (any of the listed types at that range)
	softRange := map[[5]interface{}]bool{} // range-level don't care
	markSoft := func(l Loc) { softRange[[5]interface{}{l.File, l.SL, l.SC, l.EL, l.EC}] = true }
	tempting := 0
	n2, n4 := 0, 0
	for fi, b := range a.bind {
		f := c.WS.Files[fi]
		for _, oc := range b.Occs {
			if oc.Kind != reflua.ORead || oc.Decl != nil || oc.Name.Off == oc.Name.End {
				if oc.Kind == reflua.ORead && oc.Decl != nil && oc.Decl.Func != oc.Func {
					tempting++
				}
				continue
			}
			name := oc.Name.Text
			l := spanLoc(f.Path, f.Text, oc.Name.Span)
			if dcName(name) || ignored[name] {
				continue
			}
			fileIgnored := false
			for _, fv := range c.FileVars {
				if strings.Contains(f.Path, fv.File) {
					for _, vn := range fv.Vars {
						fileIgnored = fileIgnored || vn == name
					}
				}
			}
			if c.Mode == "json" && fileIgnored {
				env.Stats.Class("read-ignored-by-file-entry")
				continue
			}
			defs := a.globalDefs[name]
			if len(defs) == 0 {
				if inSuppressedIdiom(b, oc) {
					markSoft(l)
					continue
				}
				hard[diagKey{l.File, l.SL, l.SC, l.EL, l.EC, 2}] = "read of a global that no file defines"
				n2++
				continue
			}
			otherFile := false
			laterTop, earlier, sameFileDefs := false, false, 0
			inDefStat := false
			for _, d := range defs {
				if d.file != fi {
					otherFile = true
					continue
				}
				sameFileDefs++
				if top := topStat(b.Res.Chunk, oc.Name.Off); top != nil && d.def.Occ.Name.Off >= top.SSpan().Off && d.def.Occ.Name.Off < top.SSpan().End {
					// the chunk-level statement that contains the read also contains a definition
					inDefStat = true
				}
				if oc.Name.Off >= d.def.StatOff && oc.Name.Off < d.def.EffectiveOff {
					// a read inside the very statement that defines the name (G, G.x = ...; G = G or 1):
					// evaluation order / suppression idioms make this unspecified
					inDefStat = true
				}
				if d.def.EffectiveOff <= oc.Name.Off {
					earlier = true
				} else if d.def.Occ.Func == nil {
					laterTop = true
				}
			}
			if otherFile {
				tempting++
			}
			switch {
			case inDefStat:
				markSoft(l)
			case oc.Func != nil || earlier:
				// inside a function, or defined earlier in the file: no warning
			case !otherFile && sameFileDefs > 0 && laterTop && !inSuppressedIdiom(b, oc):
				hard[diagKey{l.File, l.SL, l.SC, l.EL, l.EC, 3}] = "top-level read of a global whose only definitions come later in the same file"
			default:
				// defined later in this file and elsewhere, or only inside functions later: unspecified
				markSoft(l)
			}
		}
		for _, d := range b.Decls {
			if d.Kind != reflua.DLocal || d.Name.Text == "_" || d.Name.Text == "_G" {
				continue
			}
			l := spanLoc(f.Path, f.Text, d.Name.Span)
			if d.Reads() > 0 {
				continue
			}
			if d.Attrib == "close" || d.ValueIsFunc || isFuncValue(d.Init) || aliasOfLibrary(d.Init) {
				continue
			}
			if maybeAlias(d.Init) {
				// local x = string["format"]: whether this counts as a library alias is unspecified,
				// and with it whether later assignments to x are "only assigned"
				markSoft(l)
				for _, oc2 := range d.Occs {
					if oc2.Kind == reflua.OWrite {
						markSoft(spanLoc(f.Path, f.Text, oc2.Name.Span))
					}
				}
			}
			if _, isCall := d.Init.(*reflua.CallExp); isCall && callsRequire(d.Init) {
				continue
			}
			hard[diagKey{l.File, l.SL, l.SC, l.EL, l.EC, 4}] = "local that nothing reads"
			n4++
			for _, oc := range d.Occs {
				if oc.Kind == reflua.OWrite && (isFuncValue(oc.Value) || aliasOfLibrary(oc.Value) || maybeAlias(oc.Value) || callsRequire(oc.Value)) {
					// a write-only local that is later assigned a function / library alias: the
					// documented exemptions speak of declarations only; unspecified
					markSoft(l)
					for _, oc2 := range d.Occs {
						if oc2.Kind == reflua.OWrite {
							markSoft(spanLoc(f.Path, f.Text, oc2.Name.Span))
						}
					}
				}
				if oc.Kind == reflua.OWrite {
					wl := spanLoc(f.Path, f.Text, oc.Name.Span)
					hard[diagKey{wl.File, wl.SL, wl.SC, wl.EL, wl.EC, 17}] = "assignment to a local that nothing reads"
				}
				if oc.Kind == reflua.OFuncName {
					// `function a() end` on a never-read local: the value is a function; unspecified
					wl := spanLoc(f.Path, f.Text, oc.Name.Span)
					markSoft(wl)
					markSoft(l)
				}
			}
		}
	}
	_ = soft
	isSoft := func(k diagKey) bool { return softRange[[5]interface{}{k.File, k.SL, k.SC, k.EL, k.EC}] }
	var keys []diagKey
	for k := range hard {
		keys = append(keys, k)
	}
	sort.Slice(keys, func(i, j int) bool { return fmt.Sprint(keys[i]) < fmt.Sprint(keys[j]) })
	for _, k := range keys {
		if isSoft(k) {
			continue
		}
		if _, ok := got[k]; !ok {
			return violf(fmt.Sprintf("missing-%d", k.Type), "expected a type-%d warning at %s:%d:%d-%d:%d (%s), none was published\n%s", k.Type, k.File, k.SL, k.SC, k.EL, k.EC, hard[k], showWS(&c.WS))
		}
	}
	var gkeys []diagKey
	for k := range got {
		gkeys = append(gkeys, k)
	}
	sort.Slice(gkeys, func(i, j int) bool { return fmt.Sprint(gkeys[i]) < fmt.Sprint(gkeys[j]) })
	for _, k := range gkeys {
		if isSoft(k) {
			env.Stats.mu.Lock()
			env.Stats.DontCare++
			env.Stats.mu.Unlock()
			continue
		}
		if _, ok := hard[k]; !ok {
			return violf(fmt.Sprintf("extra-%d", k.Type), "unexpected type-%d warning at %s:%d:%d-%d:%d: %s\n%s", k.Type, k.File, k.SL, k.SC, k.EL, k.EC, got[k], showWS(&c.WS))
		}
	}
	env.Stats.Class("mode-" + c.Mode)
	env.Stats.ClassN("expected-type2", n2)
	env.Stats.ClassN("expected-type4", n4)
	if n2 > 0 && n4 > 0 && tempting > 0 && env.Stats.NT(showWS(&c.WS)+c.Mode) {
		env.Stats.Class("nontrivial")
		env.Stats.Sample(3, map[string]interface{}{"workspace": c.WS.Files, "mode": c.Mode, "expected": len(hard)})
	}
	return nil
}

// aliasOfLibrary: `local m = math`, `local concat = table.concat`, `local p = print`
func aliasOfLibrary(e reflua.Exp) bool {
	for {
		p, ok := e.(*reflua.ParenExp)
		if !ok {
			break
		}
		e = p.X
	}
	switch t := e.(type) {
	case *reflua.NameExp:
		return sysNotUse[t.Name.Text]
	case *reflua.IndexExp:
		if ne, ok := t.Obj.(*reflua.NameExp); ok && t.KeyName != nil {
			return sysNotUse[ne.Name.Text]
		}
	}
	return false
}

// maybeAlias: an index expression with brackets on a library name (print["x"], string["format"])
func maybeAlias(e reflua.Exp) bool {
	for {
		p, ok := e.(*reflua.ParenExp)
		if !ok {
			break
		}
		e = p.X
	}
	if t, ok := e.(*reflua.IndexExp); ok && t.KeyName == nil {
		if ne, ok := t.Obj.(*reflua.NameExp); ok {
			return sysNotUse[ne.Name.Text]
		}
	}
	return false
}

// isFuncValue: a function expression, possibly parenthesised.
func isFuncValue(e reflua.Exp) bool {
	for {
		p, ok := e.(*reflua.ParenExp)
		if !ok {
			break
		}
		e = p.X
	}
	_, ok := e.(*reflua.FuncExp)
	return ok
}

func callsRequire(e reflua.Exp) bool {
	if c, ok := e.(*reflua.CallExp); ok {
		if ne, ok := c.Fn.(*reflua.NameExp); ok {
			return ne.Name.Text == "require" || ne.Name.Text == "import"
		}
	}
	return false
}

// inSuppressedIdiom: the server deliberately reports nothing for a name that an `if` / `elseif`
// condition tests with `not N` or `N == nil` (analysis.ignoreInfo: the name is remembered together
// with its line and every read of it on that line is let through), and for `N = N or v`. Those reads
// are a don't-care class. Everything else — operands of and / or / ~= / == <value>, while and until
// conditions, `not N` outside an if condition — is expected to be reported like any other read.
func inSuppressedIdiom(b *reflua.Binding, oc *reflua.Occ) bool {
	text := b.Res.Src
	lineOf := func(off int) int { l, _ := refmodel.PosOf(text, off); return l }
	ocLine := lineOf(oc.Name.Off)
	name := oc.Name.Text
	found := false
	strip := func(e reflua.Exp) reflua.Exp {
		for {
			p, ok := e.(*reflua.ParenExp)
			if !ok {
				return e
			}
			e = p.X
		}
	}
	isName := func(e reflua.Exp) bool {
		ne, ok := strip(e).(*reflua.NameExp)
		return ok && ne.Name.Text == name
	}
	// a function expression written inside an if condition is analysed with the "inside an if
	// condition" state still set: the idiom is let through there as well
	forceIf := 0
	var walkE func(e reflua.Exp, inIf bool)
	walkE = func(e reflua.Exp, inIf bool) {
		inIf = inIf || forceIf > 0
		switch t := e.(type) {
		case nil:
		case *reflua.BinExp:
			if inIf && t.Op == "==" && isName(t.L) {
				if _, isNil := strip(t.R).(*reflua.NilExp); isNil && lineOf(t.ESpan().Off) <= ocLine && ocLine <= lineOf(t.ESpan().End) {
					found = true
				}
			}
			walkE(t.L, inIf)
			walkE(t.R, inIf)
		case *reflua.UnExp:
			if inIf && t.Op == "not" && isName(t.X) && lineOf(t.ESpan().Off) <= ocLine && ocLine <= lineOf(t.ESpan().End) {
				found = true
			}
			walkE(t.X, inIf)
		case *reflua.ParenExp:
			walkE(t.X, inIf)
		case *reflua.IndexExp:
			walkE(t.Obj, inIf)
			walkE(t.Key, inIf)
		case *reflua.CallExp:
			walkE(t.Fn, inIf)
			for _, a := range t.Args {
				walkE(a, inIf)
			}
		case *reflua.TableExp:
			for _, f := range t.Fields {
				walkE(f.KeyExp, inIf)
				walkE(f.Value, inIf)
			}
		case *reflua.FuncExp:
			if inIf {
				forceIf++
			}
			walkB(t.Body, walkE)
			if inIf {
				forceIf--
			}
		}
	}
	selfAssignName = name
	selfAssignLine = ocLine
	selfAssignFound = false
	selfAssignLineOf = lineOf
	walkB(b.Res.Chunk, walkE)
	selfAssignName = ""
	return found || selfAssignFound
}

// topStat returns the chunk-level statement that contains the offset.
func topStat(chunk *reflua.Block, off int) reflua.Stat {
	for _, s := range chunk.Stats {
		if sp := s.SSpan(); off >= sp.Off && off < sp.End {
			return s
		}
	}
	return nil
}

// state of the inSuppressedIdiom walk (single-threaded use)
var (
	selfAssignName   string
	selfAssignLine   int
	selfAssignFound  bool
	selfAssignLineOf func(int) int
)

func walkB(blk *reflua.Block, walkE func(reflua.Exp, bool)) {
	if blk == nil {
		return
	}
	for _, s := range blk.Stats {
		switch t := s.(type) {
		case *reflua.LocalStat:
			for _, e := range t.Exps {
				walkE(e, false)
			}
		case *reflua.LocalFuncStat:
			walkB(t.Func.Body, walkE)
		case *reflua.FuncStat:
			walkB(t.Func.Body, walkE)
		case *reflua.AssignStat:
			for _, e := range t.Targets {
				walkE(e, false)
				// `N = N or v` (and any read of N on the line of an assignment to N)
				if ne, ok := e.(*reflua.NameExp); ok && selfAssignName != "" && ne.Name.Text == selfAssignName && selfAssignLineOf != nil {
					if selfAssignLineOf(t.SSpan().Off) <= selfAssignLine && selfAssignLine <= selfAssignLineOf(t.SSpan().End) {
						selfAssignFound = true
					}
				}
			}
			for _, e := range t.Exps {
				walkE(e, false)
			}
		case *reflua.CallStat:
			walkE(t.Call, false)
		case *reflua.DoStat:
			walkB(t.Body, walkE)
		case *reflua.WhileStat:
			walkE(t.Cond, false)
			walkB(t.Body, walkE)
		case *reflua.RepeatStat:
			walkB(t.Body, walkE)
			walkE(t.Cond, false)
		case *reflua.IfStat:
			for i, c := range t.Conds {
				walkE(c, true)
				walkB(t.Blocks[i], walkE)
			}
			walkB(t.Else, walkE)
		case *reflua.NumForStat:
			walkE(t.Start, false)
			walkE(t.Limit, false)
			walkE(t.Step, false)
			walkB(t.Body, walkE)
		case *reflua.GenForStat:
			for _, e := range t.Exps {
				walkE(e, false)
			}
			walkB(t.Body, walkE)
		case *reflua.ReturnStat:
			for _, e := range t.Exps {
				walkE(e, false)
			}
		}
	}
}

func TestC07(t *testing.T) { runProp(t, "C07", genC07, checkC07) }
