package props

import (
	"encoding/json"
	"fmt"
	"os"
	"strings"
	"testing"

	"pgregory.net/rapid"

	"verif/harness"
	"verif/luagen"
	"verif/proto"
	"verif/reflua"
	"verif/refmodel"
)

// C10 — requests that the transport runs concurrently are safe and serialisable.

type C10Msg struct {
	Kind   string          `json:"kind"` // request | change | save | config | reopen
	Method string          `json:"method,omitempty"`
	Params json.RawMessage `json:"params,omitempty"`
	Text   string          `json:"text,omitempty"` // change: the new full text of the document (sent as one incremental replacement)
}

type C10Case struct {
	Files []WSFile `json:"files"`
	Msgs  []C10Msg `json:"msgs"`
}

func init() { register("C10", checkC10) }

var c10Requests = []string{"textDocument/hover", "textDocument/definition", "textDocument/references", "textDocument/rename", "textDocument/documentSymbol",
	"workspace/symbol", "textDocument/completion", "textDocument/documentHighlight", "luahelper/getVarColor"}

const c10Prelude = `local Base = { bx = 1 }
function Base:bm() return self.bx end
local T = { tx = 2 }
local obj = setmetatable(T, { __index = Base })
print(obj.bx, obj.tx, obj:bm())
---@class Cls1
---@field cf number
local cv = {}
print(cv.cf)
local um = require("util")
print(um, Gtab.x, gfun(1))
`

func genC10(t *rapid.T) C10Case {
	var c C10Case
	cfg := luagen.DefaultConfig()
	cfg.Naming = luagen.NamesMixed
	cfg.MaxStats = 8
	cfg.NoSameNameInit, cfg.NoFuncInForBounds, cfg.NoFuncInTargetIndex = true, true, true
	toks := luagen.Program(t, cfg)
	text, _ := luagen.RenderSimple(toks)
	// half of the floods work on a file that starts with library idioms whose analysis takes special
	// paths at request time (metatables, annotated classes, required modules)
	hot := map[string]bool{}
	if rapid.Bool().Draw(t, "prelude") {
		text = c10Prelude + text
		hot = map[string]bool{"obj": true, "cv": true, "um": true, "Base": true, "T": true}
	}
	c.Files = []WSFile{{Path: "main.lua", Text: text}, {Path: "util.lua", Text: "G1 = 1\nfunction gfun(a) return a end\nGtab = { x = 1 }\n"}}
	// closed files that change on disk during the flood (one watched-files notification for all of them)
	for i := 1; i <= 8; i++ {
		c.Files = append(c.Files, WSFile{Path: fmt.Sprintf("aux/a%d.lua", i), Text: fmt.Sprintf("Aux%d = 0\nprint(Aux%d, G1)\n", i, i)})
	}
	cur := text
	curUtil := c.Files[1].Text
	globalsHot := map[string]bool{"G1": true, "gfun": true, "Gtab": true}
	n := rapid.IntRange(20, 80).Draw(t, "nmsgs")
	for i := 0; i < n; i++ {
		k := rapid.IntRange(0, 9).Draw(t, "kind")
		switch {
		case k <= 5:
			m := rapid.SampledFrom(c10Requests).Draw(t, "method")
			// position: a token start of the client's current text
			toks, _, _ := reflua.Tokenize(cur)
			line, ch := 0, 0
			if len(toks) > 0 {
				tk := toks[rapid.IntRange(0, len(toks)-1).Draw(t, "tok")]
				if len(hot) > 0 && rapid.IntRange(0, 2).Draw(t, "hotTok") == 0 {
					var hs []reflua.Token
					for _, x := range toks {
						if hot[x.Text] {
							hs = append(hs, x)
						}
					}
					if len(hs) > 0 {
						tk = hs[rapid.IntRange(0, len(hs)-1).Draw(t, "hotIdx")]
						// cursor-driven requests dominate on the idioms
						m = rapid.SampledFrom([]string{"textDocument/hover", "textDocument/hover", "textDocument/definition", "textDocument/completion", "textDocument/documentHighlight", m}).Draw(t, "hotMethod")
					}
				}
				if rapid.IntRange(0, 5).Draw(t, "globalTok") == 0 {
					// a workspace global used in several documents: references / rename fan out over the files
					var gs []reflua.Token
					for _, x := range toks {
						if globalsHot[x.Text] {
							gs = append(gs, x)
						}
					}
					if len(gs) > 0 {
						tk = gs[rapid.IntRange(0, len(gs)-1).Draw(t, "globalIdx")]
						m = rapid.SampledFrom([]string{"textDocument/references", "textDocument/references", "textDocument/rename", m}).Draw(t, "globalMethod")
					}
				}
				line, ch = refmodel.PosOf(cur, tk.Off)
			}
			td := harness.M{"uri": harness.URI("main.lua")}
			var p harness.M
			switch m {
			case "workspace/symbol":
				p = harness.M{"query": rapid.SampledFrom([]string{"", "G", "f"}).Draw(t, "query")}
			case "textDocument/documentSymbol", "luahelper/getVarColor":
				p = harness.M{"textDocument": td}
			case "textDocument/references":
				p = harness.M{"textDocument": td, "position": harness.Pos(line, ch), "context": harness.M{"includeDeclaration": true}}
			case "textDocument/rename":
				p = harness.M{"textDocument": td, "position": harness.Pos(line, ch), "newName": "zq"}
			case "textDocument/completion":
				p = harness.M{"textDocument": td, "position": harness.Pos(line, ch+1), "context": harness.M{"triggerKind": 1}}
			default:
				p = harness.M{"textDocument": td, "position": harness.Pos(line, ch)}
			}
			c.Msgs = append(c.Msgs, C10Msg{Kind: "request", Method: m, Params: harness.J(p)})
			// bursts: editors re-send the same cursor request while the pointer rests (and several
			// identical requests in flight overlap most)
			if rapid.IntRange(0, 4).Draw(t, "burst") == 0 {
				for b := rapid.IntRange(1, 3).Draw(t, "burstLen"); b > 0; b-- {
					c.Msgs = append(c.Msgs, C10Msg{Kind: "request", Method: m, Params: harness.J(p)})
				}
			}
		case k <= 7:
			// the user keeps typing: a small edit that keeps the program valid (append / change a statement)
			edit := rapid.SampledFrom([]string{"local zz1 = 1\n", "print(G1)\n", "G1 = 2\n", "local zz2 = gfun(1)\n", ""}).Draw(t, "edit")
			if edit == "" {
				cur = text
			} else {
				cur = cur + edit
			}
			c.Msgs = append(c.Msgs, C10Msg{Kind: "change", Text: cur})
			if rapid.IntRange(0, 2).Draw(t, "alsoUtil") == 0 {
				// the second open document is edited too (unsaved): two documents with cached analyses
				curUtil += rapid.SampledFrom([]string{"print(G1)\n", "print(gfun(G1))\n", "local uz = Gtab.x\n"}).Draw(t, "utilEdit")
				c.Msgs = append(c.Msgs, C10Msg{Kind: "change-util", Text: curUtil})
			}
		case k == 8:
			c.Msgs = append(c.Msgs, C10Msg{Kind: "save"})
		default:
			c.Msgs = append(c.Msgs, C10Msg{Kind: rapid.SampledFrom([]string{"config", "reopen", "watched", "watched"}).Draw(t, "other"), Text: fmt.Sprint(i)})
		}
	}
	return c
}

func (c *C10Case) script(flood bool) (*proto.Request, []int) {
	ws := Workspace{Files: c.Files}
	req := &proto.Request{Cmd: "session", Files: ws.protoFiles(), InitOptions: harness.J(harness.AllOn()), CallTimeoutMs: 60000}
	req.Steps = []proto.Step{harness.DidOpen(c.Files[0].Path, c.Files[0].Text), harness.DidOpen(c.Files[1].Path, c.Files[1].Text)}
	cur := c.Files[0].Text
	curUtil := c.Files[1].Text
	version := 1
	var reqSteps []int
	notifyOp, callOp := "notify", "call"
	if flood {
		notifyOp, callOp = "post", "send"
	}
	for _, m := range c.Msgs {
		switch m.Kind {
		case "request":
			reqSteps = append(reqSteps, len(req.Steps))
			req.Steps = append(req.Steps, proto.Step{Op: callOp, Method: m.Method, Params: m.Params})
		case "change":
			version++
			ls := refmodel.Lines(cur)
			el := len(ls) - 1
			ec := refmodel.U16Len(cur[ls[el].Start:ls[el].End])
			req.Steps = append(req.Steps, proto.Step{Op: notifyOp, Method: "textDocument/didChange", Params: harness.J(harness.M{
				"textDocument":   harness.M{"uri": harness.URI("main.lua"), "version": version},
				"contentChanges": []harness.M{{"range": harness.M{"start": harness.Pos(0, 0), "end": harness.Pos(el, ec)}, "text": m.Text}}})})
			cur = m.Text
		case "change-util":
			version++
			ls := refmodel.Lines(curUtil)
			el := len(ls) - 1
			ec := refmodel.U16Len(curUtil[ls[el].Start:ls[el].End])
			req.Steps = append(req.Steps, proto.Step{Op: notifyOp, Method: "textDocument/didChange", Params: harness.J(harness.M{
				"textDocument":   harness.M{"uri": harness.URI(c.Files[1].Path), "version": version},
				"contentChanges": []harness.M{{"range": harness.M{"start": harness.Pos(0, 0), "end": harness.Pos(el, ec)}, "text": m.Text}}})})
			curUtil = m.Text
		case "save":
			st := harness.DidSave("main.lua", cur)
			st.Op = notifyOp
			if flood {
				// the disk write of a save is not a message: it is ordered after everything sent before it
				// (otherwise a re-analysis triggered by an earlier message could read the future file)
				req.Steps = append(req.Steps, proto.Step{Op: "drain"})
			}
			req.Steps = append(req.Steps, proto.Step{Op: "write", Path: "main.lua", Data: []byte(cur)}, st)
		case "config":
			warn := harness.M{}
			for _, f := range harness.FlagNames {
				warn[f] = true
			}
			st := proto.Step{Op: notifyOp, Method: "workspace/didChangeConfiguration", Params: harness.J(harness.M{"settings": harness.M{"luahelper": harness.M{
				"base": harness.M{"ReferenceMaxNum": 3000, "ReferenceIncudeDefine": true}, "Warn": warn}}})}
			req.Steps = append(req.Steps, st)
		case "watched":
			// "save all" / a checkout: several closed files change on disk, one notification names them all
			if flood {
				req.Steps = append(req.Steps, proto.Step{Op: "drain"})
			}
			var evs [][2]interface{}
			for _, f := range c.Files[2:] {
				req.Steps = append(req.Steps, proto.Step{Op: "write", Path: f.Path, Data: []byte(f.Text + "-- rev " + m.Text + "\nAuxRev = " + m.Text + "\n")})
				evs = append(evs, [2]interface{}{f.Path, 2})
			}
			st := harness.Watched(evs...)
			st.Op = notifyOp
			req.Steps = append(req.Steps, st)
		case "reopen":
			a, b := harness.DidClose("main.lua"), harness.DidOpen("main.lua", cur)
			a.Op, b.Op = notifyOp, notifyOp
			req.Steps = append(req.Steps, a, b)
		}
	}
	req.Steps = append(req.Steps, proto.Step{Op: "drain"})
	return req, reqSteps
}

func checkC10(c C10Case, env *Env) *Violation {
	// (a) memory safety: flood the race-detector build; the first reported race kills the child
	flood, reqSteps := c.script(true)
	o := pool.ExecFresh(flood, "GORACE=halt_on_error=1 exitcode=66")
	raceBuild := strings.Contains(os.Getenv("LHEXEC"), "race")
	if o.Died || o.TimedOut || (o.Resp != nil && o.Resp.Hung) {
		msg := o.Describe()
		if strings.Contains(o.Stderr, "DATA RACE") {
			return violf("data-race", "the race detector reports an unsynchronised access while the client has several messages in flight:\n%s\n%s", raceSummary(o.Stderr), c10Show(&c))
		}
		if strings.Contains(o.Stderr, "concurrent map") {
			return violf("concurrent-map", "fatal concurrent map access:\n%s\n%s", harnessHead(o.Stderr), c10Show(&c))
		}
		return violf("crash", "the server died or hung under overlapping messages: %s\n%s", msg, c10Show(&c))
	}
	if o.Resp.Fatal != "" || o.Resp.InitError != "" {
		return violf("inconclusive", "executor: %s %s", o.Resp.Fatal, o.Resp.InitError)
	}
	if strings.HasPrefix(c.Files[0].Text, c10Prelude) {
		// Floods on the idiom prelude are decided by oracle (a) only. Requests on a variable defined with
		// setmetatable have side effects on the shared analysis (the metatable's fields are merged into
		// the table's members at request time), so the answers of overlapping requests legitimately
		// depend on the order in which the server served them; the serialisability oracle below assumes
		// requests that only read, and enumerating every order of the overlapping requests is out of reach.
		env.Stats.Class("idiom-prelude-race-oracle-only")
		if raceBuild {
			env.Stats.Class("race-detector-build")
		}
		return nil
	}
	// (b) serialisability: every answer must equal the answer of the same request in a sequential
	// replay, placed after the notifications sent before it or after any later notification
	seq, seqSteps := c.script(false)
	// candidate placements: re-issue each request after every later notification
	type cand struct{ req, step int }
	var cands []cand
	extra := &proto.Request{Cmd: seq.Cmd, Files: seq.Files, InitOptions: seq.InitOptions, CallTimeoutMs: seq.CallTimeoutMs}
	var pendingReqs []int
	ri := 0
	for si, st := range seq.Steps {
		extra.Steps = append(extra.Steps, st)
		if ri < len(seqSteps) && si == seqSteps[ri] {
			cands = append(cands, cand{ri, len(extra.Steps) - 1})
			pendingReqs = append(pendingReqs, ri)
			ri++
			continue
		}
		if st.Op == "notify" && len(pendingReqs) > 0 {
			for _, r := range pendingReqs {
				rs := seq.Steps[seqSteps[r]]
				cands = append(cands, cand{r, len(extra.Steps)})
				extra.Steps = append(extra.Steps, rs)
			}
		}
	}
	so := env.Exec(extra)
	if so.Crash() {
		return violf("crash", "the server died in the sequential replay: %s\n%s", so.Describe(), c10Show(&c))
	}
	if so.Resp.Fatal != "" || so.Resp.InitError != "" {
		return violf("inconclusive", "executor: %s %s", so.Resp.Fatal, so.Resp.InitError)
	}
	allowed := map[int]map[string]bool{}
	for _, cd := range cands {
		r := harness.ResultOf(so.Resp, cd.step)
		if r == nil {
			continue
		}
		if allowed[cd.req] == nil {
			allowed[cd.req] = map[string]bool{}
		}
		allowed[cd.req][normJSON(r.Result)+r.Error] = true
	}
	overlap := 0
	for i, st := range reqSteps {
		r := harness.ResultOf(o.Resp, st)
		if r == nil {
			return violf("unanswered", "request %d (%s) got no answer in the flood\n%s", i, flood.Steps[st].Method, c10Show(&c))
		}
		got := normJSON(r.Result) + r.Error
		if !allowed[i][got] && flood.Steps[st].Method != "textDocument/documentHighlight" && flood.Steps[st].Method != "luahelper/getVarColor" {
			// Requests are not free of side effects (hover / definition on a variable defined with
			// setmetatable merges the metatable's fields into the table's members), and overlapping
			// requests may be served in any order: besides the replay that runs every request in sending
			// order, the order in which this request runs before all other requests is tried — the same
			// notifications with this request alone at each of its placements.
			solo := &proto.Request{Cmd: seq.Cmd, Files: seq.Files, InitOptions: seq.InitOptions, CallTimeoutMs: seq.CallTimeoutMs}
			var soloSteps []int
			seen := false
			for si, sst := range seq.Steps {
				isReq := false
				for k, rs := range seqSteps {
					if rs == si {
						isReq = true
						if k == i {
							seen = true
							soloSteps = append(soloSteps, len(solo.Steps))
							solo.Steps = append(solo.Steps, sst)
						}
					}
				}
				if isReq {
					continue
				}
				solo.Steps = append(solo.Steps, sst)
				if seen && sst.Op == "notify" {
					soloSteps = append(soloSteps, len(solo.Steps))
					solo.Steps = append(solo.Steps, seq.Steps[seqSteps[i]])
				}
			}
			if so2 := env.Exec(solo); !so2.Crash() && so2.Resp.Fatal == "" && so2.Resp.InitError == "" {
				for _, ss := range soloSteps {
					if r2 := harness.ResultOf(so2.Resp, ss); r2 != nil {
						allowed[i][normJSON(r2.Result)+r2.Error] = true
					}
				}
				env.Stats.Class("request-order-replay")
			}
		}
		if !allowed[i][got] {
			if flood.Steps[st].Method == "textDocument/documentHighlight" || flood.Steps[st].Method == "luahelper/getVarColor" {
				// rate-limited by wall-clock time after an edit: not a function of the message order
				env.Stats.mu.Lock()
				env.Stats.DontCare++
				env.Stats.mu.Unlock()
				continue
			}
			var al []string
			for a := range allowed[i] {
				// show where the answers start to differ
				k := 0
				for k < len(a) && k < len(got) && a[k] == got[k] {
					k++
				}
				from := k - 60
				if from < 0 {
					from = 0
				}
				al = append(al, fmt.Sprintf("…%s ≠ flood …%s", clip(a[from:], 260), clip(got[from:], 260)))
			}
			return violf("not-serialisable", "request %d (%s %s) answered %s under overlapping messages; no sequential order of the same messages gives that answer (sequential answers: %v)\n%s",
				i, flood.Steps[st].Method, clip(string(flood.Steps[st].Params), 200), clip(got, 400), al, c10Show(&c))
		}
		if len(allowed[i]) > 1 {
			overlap++
		}
	}
	env.Stats.mu.Lock()
	env.Stats.Queries += len(reqSteps)
	env.Stats.mu.Unlock()
	if raceBuild {
		env.Stats.Class("race-detector-build")
	}
	env.Stats.ClassN("requests-with-several-sequential-answers", overlap)
	if overlap > 0 && env.Stats.NT(fmt.Sprint(c)) {
		env.Stats.Class("nontrivial")
		env.Stats.Sample(2, map[string]interface{}{"messages": len(c.Msgs), "main.lua": c.Files[0].Text})
	}
	return nil
}

func raceSummary(stderr string) string {
	i := strings.Index(stderr, "WARNING: DATA RACE")
	if i < 0 {
		return harnessHead(stderr)
	}
	s := stderr[i:]
	var keep []string
	for _, l := range strings.Split(s, "\n") {
		if strings.HasPrefix(l, "WARNING") || strings.HasPrefix(l, "Read at") || strings.HasPrefix(l, "Write at") || strings.HasPrefix(l, "Previous") ||
			strings.Contains(l, "luahelper-lsp/") {
			keep = append(keep, l)
		}
		if len(keep) > 24 {
			break
		}
	}
	return strings.Join(keep, "\n")
}

func harnessHead(s string) string {
	if len(s) > 1500 {
		return s[:1500]
	}
	return s
}

func c10Show(c *C10Case) string {
	var b strings.Builder
	fmt.Fprintf(&b, "--- main.lua\n%s--- %d messages:", c.Files[0].Text, len(c.Msgs))
	for i, m := range c.Msgs {
		if i > 40 {
			b.WriteString(" …")
			break
		}
		if m.Kind == "request" {
			fmt.Fprintf(&b, " %s", strings.TrimPrefix(strings.TrimPrefix(m.Method, "textDocument/"), "luahelper/"))
		} else {
			fmt.Fprintf(&b, " [%s]", m.Kind)
		}
	}
	b.WriteString("\n")
	return b.String()
}

func TestC10(t *testing.T) { runProp(t, "C10", genC10, checkC10) }
