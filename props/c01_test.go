package props

import (
	"encoding/json"
	"fmt"
	"os"
	"strings"
	"sync/atomic"
	"testing"
	"time"

	"pgregory.net/rapid"

	"verif/harness"
	"verif/luagen"
	"verif/proto"
	"verif/reflua"
	"verif/refmodel"
)

// C01 — the server never crashes or hangs, whatever the workspace or the client sends.

type C01Case struct {
	Files       []proto.File    `json:"files"`
	InitOptions json.RawMessage `json:"initOptions,omitempty"`
	Steps       []proto.Step    `json:"steps"`
	Note        string          `json:"note,omitempty"`
}

func init() { register("C01", checkC01) }

var hostileTemplates = []func(t *rapid.T) string{
	func(t *rapid.T) string {
		return "x = " + strings.Repeat("(", rapid.IntRange(1000, 6000).Draw(t, "deep")) + "1"
	},
	func(t *rapid.T) string {
		n := rapid.IntRange(500, 3000).Draw(t, "deep")
		return "x = " + strings.Repeat("{", n) + strings.Repeat("}", n)
	},
	func(t *rapid.T) string {
		n := rapid.IntRange(300, 1500).Draw(t, "deep")
		return strings.Repeat("function f() ", n) + strings.Repeat(" end", n/2)
	},
	func(t *rapid.T) string {
		n := rapid.IntRange(300, 2000).Draw(t, "deep")
		return strings.Repeat("if x then ", n)
	},
	func(t *rapid.T) string {
		return "x = " + strings.Repeat("- ", rapid.IntRange(1000, 8000).Draw(t, "run")) + "1"
	},
	func(t *rapid.T) string {
		return "x = 1" + strings.Repeat(" .. 1", rapid.IntRange(1000, 6000).Draw(t, "run"))
	},
	func(t *rapid.T) string {
		return "x = a" + strings.Repeat(".b", rapid.IntRange(200, 800).Draw(t, "run"))
	},
	func(t *rapid.T) string {
		return "x = a" + strings.Repeat("()", rapid.IntRange(1000, 6000).Draw(t, "run"))
	},
	func(t *rapid.T) string {
		return "x = a" + strings.Repeat("[1]", rapid.IntRange(200, 800).Draw(t, "run"))
	},
	func(t *rapid.T) string { return "local s = \"abc" },
	func(t *rapid.T) string { return "local s = 'abc\\" },
	func(t *rapid.T) string { return "local s = \"abc\\\n" },
	func(t *rapid.T) string { return "local s = [==[ abc ]=] " },
	func(t *rapid.T) string { return "--[[ never closed\nlocal x = 1" },
	func(t *rapid.T) string { return "--[==[\n]]" },
	func(t *rapid.T) string { return "x = 0x" },
	func(t *rapid.T) string { return "x = 1e" },
	func(t *rapid.T) string { return "x = ." },
	func(t *rapid.T) string { return "x = 1..2" },
	func(t *rapid.T) string { return "x = 0x" + strings.Repeat("f", 400) + "p" + strings.Repeat("9", 400) },
	func(t *rapid.T) string { return "x = " + strings.Repeat("9", 5000) + "LL" },
	func(t *rapid.T) string { return strings.Repeat("x = = 1\n", rapid.IntRange(25, 60).Draw(t, "errs")) },
	func(t *rapid.T) string { return strings.Repeat("local a"+strings.Repeat(", a", 300)+" = 1\n", 3) },
	func(t *rapid.T) string { return "\xef\xbb\xbf#!shebang" },
	func(t *rapid.T) string { return "\xef\xbb\xbf" },
	func(t *rapid.T) string { return "#" },
	func(t *rapid.T) string { return "\x00\x00local x\x00 = 1\x00" },
	func(t *rapid.T) string { return "goto a ::a:: goto b ::b:: ::a::" },
	func(t *rapid.T) string {
		return "local t = setmetatable({}, {__index = t}) t = setmetatable(t, {__index = t}) print(t.x.y.z)"
	},
	func(t *rapid.T) string {
		return "local a = b local b = a a = b b = a print(a.x, b.y)\nA = B B = C C = A print(A.k)"
	},
	func(t *rapid.T) string {
		return "function f() return f() end local v = f() print(v.x) local w = f()()()"
	},
	func(t *rapid.T) string {
		return "local M = {} function M.new() return M.new() end local o = M.new() o:"
	},
	func(t *rapid.T) string { return "require(require(require))\nlocal m = require('" },
	func(t *rapid.T) string { return "local x <const> <close> = 1 local y < = 2" },
	func(t *rapid.T) string { return "return return" },
	func(t *rapid.T) string { return "for i = 1, 2, 3, 4 do end for in do end for i do end" },
	func(t *rapid.T) string { return "a.b.c.d.e.f.g = a.b.c.d.e.f.g.h.i.j()" + strings.Repeat(":m()", 50) },
	func(t *rapid.T) string { return "local self = self function self:self() return self.self:self() end" },
	func(t *rapid.T) string { return "_G._G._G.x = _G _G = _G._G print(_G.x._G)" },
	func(t *rapid.T) string {
		n := rapid.IntRange(1, 3).Draw(t, "nctx")
		var b strings.Builder
		for i := 0; i < n; i++ {
			b.WriteString(rapid.SampledFrom(luagen.CtxTemplates).Draw(t, "ctxTpl"))
			b.WriteString("\n")
		}
		return b.String()
	},
	// the input ends inside a token: every multi-character token form cut short at the end of the file
	func(t *rapid.T) string {
		head := rapid.SampledFrom([]string{"x = ", "local x = 1\nx = ", "f(", "t = { ", "", "return "}).Draw(t, "eofHead")
		tail := rapid.SampledFrom([]string{"[=", "[==", "[===", "[=[", "[==[a]=", "[==[a]", "--[=", "--[==", "--[=[", "--[==[a]=", "--", "-",
			"0x", "0x.", "0x1p", "0x1p-", "1e", "1e+", "1.", "1..", ".", "..", "...", "3LL", "3UL", "3U", "0xffULL",
			"\"", "'", "\"\\", "'\\", "\"\\x", "\"\\x1", "\"\\u", "\"\\u{", "\"\\u{1", "\"\\1", "\"\\12", "\"\\z", "\"\\z  \n  ", "\"\\\r",
			"::", "::a", "::a:", "~", "~=", "<", "<<", ">", ">>", "/", "//", "=", "==", ":", "a.", "a:", "a:b", "a[", "a[[", "a[=", "#", "not", "function", "function(", "function(a,", "function(...", "local function", "local x <", "local x <const", "goto", "for", "for i", "for i =", "for i = 1,", "for k,", "for k, v in"}).Draw(t, "eofTail")
		return head + tail
	},
}

func genC01File(t *rapid.T, idx int) []byte {
	kind := rapid.IntRange(0, 9).Draw(t, "fileKind")
	var text string
	switch {
	case kind <= 2:
		cfg := richConfig(t)
		cfg.Prefix = fmt.Sprintf("f%d", idx)
		toks := luagen.Program(t, cfg)
		nm := 0
		if kind > 0 {
			nm = rapid.IntRange(1, 5).Draw(t, "nmut")
		}
		for i := 0; i < nm; i++ {
			toks, _ = luagen.Mutate(t, toks)
		}
		if rapid.IntRange(0, 2).Draw(t, "ctx") == 0 {
			// grammatical statements that break a context condition (two <close>, goto without label, ...)
			toks, _ = luagen.InsertTemplate(t, toks, rapid.SampledFrom(luagen.CtxTemplates).Draw(t, "ctxTpl"))
		}
		lay := luagen.LayoutCfg{Wild: rapid.Bool().Draw(t, "wild"), EOLs: []string{"\n", "\r\n", "\r"}, Comments: true, NonASCII: true, Astral: true, Shebang: true}
		text, _ = luagen.Render(t, toks, lay)
		if kind == 2 && len(text) > 0 {
			// a prefix of the file: the input ends at an arbitrary byte, usually inside a token
			text = text[:rapid.IntRange(0, len(text)).Draw(t, "cut")]
		}
	case kind == 3:
		cfg := richConfig(t)
		toks := luagen.Program(t, cfg)
		text, _ = luagen.RenderSimple(toks)
		// byte splices
		b := []byte(text)
		n := rapid.IntRange(1, 4).Draw(t, "nsplice")
		for i := 0; i < n; i++ {
			at := rapid.IntRange(0, len(b)).Draw(t, "spliceAt")
			sp := rapid.SampledFrom([]string{"\x00", "\x80", "\xff", "\xc3", "\xe4\xb8", "\xf0\x9f", "\"", "'", "[[", "]]", "--[[", "\\", "[=[", "\r", "\n\r", "\t", "@", "$", "`"}).Draw(t, "splice")
			b = append(b[:at], append([]byte(sp), b[at:]...)...)
		}
		return b
	case kind <= 6:
		text = rapid.SampledFrom(hostileTemplates).Draw(t, "hostile")(t)
	case kind == 7:
		text = rapid.SampledFrom(luagen.HostileAnnotations).Draw(t, "hostileAnn")
	case kind == 8:
		return rapid.SliceOfN(rapid.Byte(), 0, 200).Draw(t, "randomBytes")
	default:
		// valid program decorated with generated annotation lines (and corruptions of them)
		cfg := luagen.DefaultConfig()
		cfg.Naming = luagen.NamesMixed
		cfg.Prefix = fmt.Sprintf("f%d", idx)
		toks := luagen.Program(t, cfg)
		src, _ := luagen.RenderSimple(toks)
		lines := strings.Split(src, "\n")
		classes := []string{"Cls1", "Cls2", "Cls3", "Alias1"}
		n := rapid.IntRange(1, 8).Draw(t, "nann")
		for i := 0; i < n; i++ {
			al := luagen.GenAnnotLine(t, "", 3, classes)
			txt := "---" + al.Text
			if rapid.IntRange(0, 2).Draw(t, "corrupt") == 0 && len(txt) > 4 {
				at := rapid.IntRange(3, len(txt)-1).Draw(t, "corruptAt")
				switch rapid.IntRange(0, 2).Draw(t, "corruptKind") {
				case 0:
					txt = txt[:at] + txt[at+1:]
				case 1:
					txt = txt[:at] + txt[at:at+1] + txt[at:]
				default:
					txt = txt[:at] + rapid.SampledFrom([]string{"|", "[", "]", "(", ")", "<", ">", ",", ":", "@", "fun", "?"}).Draw(t, "corruptTo") + txt[at:]
				}
			}
			at := rapid.IntRange(0, len(lines)).Draw(t, "annAt")
			lines = append(lines[:at], append([]string{txt}, lines[at:]...)...)
		}
		text = strings.Join(lines, "\n")
	}
	if len(text) > 65536 {
		text = text[:65536]
	}
	return []byte(text)
}

func genC01Config(t *rapid.T) (json.RawMessage, *proto.File) {
	switch rapid.IntRange(0, 5).Draw(t, "cfgKind") {
	case 0:
		return nil, nil // server default options
	case 1, 2:
		m := harness.M{"client": "vsc", "AllEnable": rapid.Bool().Draw(t, "allEnable")}
		for _, k := range harness.FlagNames[1:] {
			if rapid.Bool().Draw(t, "flag") {
				m[k] = true
			}
		}
		if rapid.Bool().Draw(t, "ignoreDirs") {
			m["IgnoreFileOrDir"] = rapid.SliceOfN(rapid.SampledFrom([]string{"sub/", "util.lua", "ma.*lua", "[", "(", "*", "\\", "a{2,1}", "(?P<x", ""}), 0, 3).Draw(t, "ignoreList")
		}
		if rapid.Bool().Draw(t, "ignoreErrDirs") {
			m["IgnoreFileOrDirError"] = rapid.SliceOfN(rapid.SampledFrom([]string{"sub/", "main.lua", ".*", "[", "+", "x**", "(?i", ""}), 0, 3).Draw(t, "ignoreErrList")
		}
		if rapid.Bool().Draw(t, "sep") {
			m["RequirePathSeparator"] = rapid.SampledFrom([]string{".", "/", "", "\\", ".."}).Draw(t, "sepVal")
		}
		return harness.J(m), nil
	case 3, 4:
		// luahelper.json, well typed, random values (config-file mode unmasks the checks above 25)
		cfg := map[string]interface{}{"BaseDir": rapid.SampledFrom([]string{"./", "", "sub/"}).Draw(t, "baseDir"),
			"ShowWarnFlag": rapid.IntRange(0, 2).Draw(t, "showWarn"), "ReferMatchPathFlag": rapid.IntRange(0, 1).Draw(t, "referMatch"),
			"IgnoreFileNameVarFlag": rapid.IntRange(0, 1).Draw(t, "ignFileNameVar")}
		if rapid.Bool().Draw(t, "jIgnMod") {
			cfg["IgnoreModules"] = []string{"hive", "import", "G1"}
		}
		if rapid.Bool().Draw(t, "jIgnTypes") {
			cfg["IgnoreErrorTypes"] = rapid.SliceOfN(rapid.IntRange(-1, 40), 0, 5).Draw(t, "jTypes")
		}
		if rapid.Bool().Draw(t, "jIgnFolder") {
			cfg["IgnoreFileOrFloder"] = rapid.SliceOfN(rapid.SampledFrom([]string{"sub/", "util.lua", "ma.*lua", "[", "(", "*", "+", "\\"}), 0, 3).Draw(t, "jFolderList")
		}
		if rapid.Bool().Draw(t, "jIgnErr") {
			cfg["IgnoreFileErr"] = rapid.SliceOfN(rapid.SampledFrom([]string{"main.lua", "sub/.*", "[", "(", "?"}), 0, 3).Draw(t, "jErrList")
		}
		if rapid.Bool().Draw(t, "jIgnErrTypes") {
			cfg["IgnoreFileErrTypes"] = []map[string]interface{}{{"File": rapid.SampledFrom([]string{"main.lua", "u.*", "[", ")"}).Draw(t, "jErrTypesFile"), "Types": []int{4, 2}}}
		}
		if rapid.Bool().Draw(t, "jProject") {
			cfg["ProjectFiles"] = rapid.SliceOfN(rapid.SampledFrom([]string{"main.lua", "./util.lua", "nofile.lua", "sub/mod.lua", ""}), 0, 3).Draw(t, "jProjectList")
		}
		if rapid.Bool().Draw(t, "jFileVars") {
			cfg["IgnoreFileVars"] = []map[string]interface{}{{"File": "main.lua", "Vars": []string{"G1", "x"}}}
		}
		// the rest of the documented schema, with usual and unusual values
		strs := func(label string, pool []string, max int) []string {
			return rapid.SliceOfN(rapid.SampledFrom(pool), 0, max).Draw(t, label)
		}
		if rapid.Bool().Draw(t, "jWild") {
			cfg["IgnoreWildcardModules"] = strs("jWildList", []string{"G*", "*", "", "g?un", "[", "**"}, 3)
		}
		if rapid.Bool().Draw(t, "jReadFiles") {
			cfg["IgnoreReadFiles"] = strs("jReadList", []string{"main.lua", "nofile.lua", "sub/", ""}, 2)
		}
		if rapid.Bool().Draw(t, "jNoUse") {
			cfg["IgnoreLocalNoUseVars"] = strs("jNoUseList", []string{"_", "a", "f0v1", ""}, 3)
		}
		if rapid.Bool().Draw(t, "jProto") {
			cfg["ProtocolVars"] = strs("jProtoList", []string{"c2s", "s2s", "G1", "a", ""}, 3)
			cfg["ProtocolPreIngoreFlag"] = rapid.IntRange(-1, 2).Draw(t, "jProtoFlag")
		}
		if rapid.Bool().Draw(t, "jFrame") {
			n := rapid.IntRange(0, 3).Draw(t, "jFrameN")
			var fr []map[string]interface{}
			for i := 0; i < n; i++ {
				fr = append(fr, map[string]interface{}{"Name": rapid.SampledFrom([]string{"import", "require", "dofile", "gfun", "print", ""}).Draw(t, "jFrameName"),
					"type": rapid.IntRange(-1, 4).Draw(t, "jFrameType"), "SuffixFlag": rapid.IntRange(-1, 2).Draw(t, "jFrameSuffix")})
			}
			cfg["ReferFrameFiles"] = fr
		}
		if rapid.Bool().Draw(t, "jSep") {
			cfg["PathSeparator"] = rapid.SampledFrom([]string{".", "/", "", "\\", "..", "ab"}).Draw(t, "jSepVal")
		}
		if rapid.Bool().Draw(t, "jAnn") {
			n := rapid.IntRange(1, 3).Draw(t, "jAnnN")
			var as []map[string]interface{}
			for i := 0; i < n; i++ {
				a := map[string]interface{}{"FuncName": rapid.SampledFrom([]string{"print", "pairs", "tostring", "type", "gfun", "G1", "G2", "require", "setmetatable", ""}).Draw(t, "jAnnFunc")}
				if rapid.IntRange(0, 3).Draw(t, "jAnnHasIdx") > 0 {
					a["ParamIndex"] = rapid.IntRange(-2, 4).Draw(t, "jAnnIdx")
				}
				if rapid.Bool().Draw(t, "jAnnSplit") {
					a["SplitFlag"] = rapid.IntRange(-1, 2).Draw(t, "jAnnSplitV")
				}
				if rapid.Bool().Draw(t, "jAnnPre") {
					a["PrefixStr"] = rapid.SampledFrom([]string{"", "Cls", "ui.", "."}).Draw(t, "jAnnPreV")
					a["PrefixStrList"] = strs("jAnnPreList", []string{"", "Cls", "a.b", "."}, 2)
					a["SuffixStr"] = rapid.SampledFrom([]string{"", "1", ".x"}).Draw(t, "jAnnSufV")
				}
				as = append(as, a)
			}
			cfg["AnntotateSets"] = as
		}
		if rapid.Bool().Draw(t, "jOther") {
			cfg["OtherDir"] = rapid.SampledFrom([]string{"", "sub/", "sub", "nonexistent/", "./"}).Draw(t, "jOtherV")
		}
		if rapid.Bool().Draw(t, "jOpen") {
			cfg["OpenErrorTypes"] = rapid.SliceOfN(rapid.IntRange(-1, 40), 0, 5).Draw(t, "jOpenTypes")
		}
		b, _ := json.Marshal(cfg)
		return harness.J(harness.AllOn()), &proto.File{Path: "luahelper.json", Data: b}
	default:
		// syntactically broken or wrongly typed luahelper.json: a clean initialize error is accepted
		bad := rapid.SampledFrom([]string{"{", "", "[]", "{\"BaseDir\": 1}", "{\"IgnoreErrorTypes\": \"x\"}", "{\"IgnoreFileOrFloder\": [1,2]}",
			"{\"ShowWarnFlag\": \"1\"}", "null", "\xff\xfe", "{\"IgnoreFileErrTypes\": [{\"File\": 3}]}", "{\"BaseDir\":\"./\",}"}).Draw(t, "badJson")
		return harness.J(harness.AllOn()), &proto.File{Path: "luahelper.json", Data: []byte(bad)}
	}
}

var c01Requests = []string{"textDocument/hover", "textDocument/definition", "textDocument/references", "textDocument/rename", "textDocument/completion",
	"textDocument/signatureHelp", "textDocument/documentSymbol", "workspace/symbol", "textDocument/documentHighlight", "luahelper/getVarColor",
	"textDocument/codeLens", "textDocument/documentLink", "completionItem/resolve"}

// c01Positions: token starts and ends, line starts and ends, end of file, (0,0), beyond the line end.
func c01Positions(text string) [][2]int {
	ps, _ := c01PositionsSplit(text)
	return ps
}

// c01PositionsSplit also returns the positions that lie inside comments.
func c01PositionsSplit(text string) (all [][2]int, inComments [][2]int) {
	var ps [][2]int
	add := func(off int) {
		if off < 0 || off > len(text) {
			return
		}
		// only rune boundaries outside CRLF
		for _, b := range refmodel.Boundaries(text) {
			if b == off {
				l, c := refmodel.PosOf(text, off)
				ps = append(ps, [2]int{l, c})
				return
			}
		}
	}
	toks, _, _ := reflua.Tokenize(validUTF8(text))
	if len(toks) > 400 {
		toks = toks[:400]
	}
	for _, tk := range toks {
		add(tk.Off)
		add(tk.End)
		if tk.End-tk.Off > 1 {
			add(tk.Off + 1)
		}
	}
	ls := refmodel.Lines(text)
	if len(ls) > 200 {
		ls = ls[:200]
	}
	// positions inside comments (annotation lines are parsed at request time): every word start and
	// end of a line that holds `--`
	nc := 0
	for _, l := range ls {
		line := text[l.Start:l.End]
		k := strings.Index(line, "--")
		if k < 0 || nc > 300 {
			continue
		}
		for j := k; j < len(line); j++ {
			w := line[j] == '_' || line[j] == '@' || line[j] >= 'a' && line[j] <= 'z' || line[j] >= 'A' && line[j] <= 'Z'
			pw := j > k && (line[j-1] == '_' || line[j-1] == '@' || line[j-1] >= 'a' && line[j-1] <= 'z' || line[j-1] >= 'A' && line[j-1] <= 'Z')
			if w != pw {
				before := len(ps)
				add(l.Start + j)
				if len(ps) > before {
					inComments = append(inComments, ps[len(ps)-1])
				}
				nc++
			}
		}
	}
	for i, l := range ls {
		ps = append(ps, [2]int{i, 0})
		add(l.End)
		ps = append(ps, [2]int{i, refmodel.U16Len(text[l.Start:l.End]) + 3}) // beyond the line end: legal
	}
	ps = append(ps, [2]int{0, 0})
	add(len(text))
	return ps, inComments
}

// validUTF8 replaces invalid bytes so that a client (which holds text, not bytes) can exist at all.
func validUTF8(s string) string { return strings.ToValidUTF8(s, "�") }

func genC01(t *rapid.T) C01Case {
	var c C01Case
	nf := rapid.IntRange(1, 3).Draw(t, "nfiles")
	for i := 0; i < nf; i++ {
		c.Files = append(c.Files, proto.File{Path: wsFileNames[i], Data: genC01File(t, i)})
	}
	opts, cfgFile := genC01Config(t)
	c.InitOptions = opts
	if cfgFile != nil {
		c.Files = append(c.Files, *cfgFile)
		// code that exercises what the configuration names: calls of the functions of AnntotateSets
		// and ReferFrameFiles with their results used, members of protocol variables
		var cfg struct {
			AnntotateSets   []struct{ FuncName string }
			ReferFrameFiles []struct{ Name string }
			ProtocolVars    []string
		}
		if json.Unmarshal(cfgFile.Data, &cfg) == nil {
			var b strings.Builder
			for i, a := range cfg.AnntotateSets {
				if reflua.IsName(a.FuncName) {
					fmt.Fprintf(&b, "local annv%d = %s(\"Cls1\", \"Cls2\")\nprint(annv%d.x, annv%d)\n", i, a.FuncName, i, i)
				}
			}
			for i, f := range cfg.ReferFrameFiles {
				if reflua.IsName(f.Name) {
					fmt.Fprintf(&b, "local frv%d = %s(\"util\")\nprint(frv%d.y)\n", i, f.Name, i)
				}
			}
			for _, v := range cfg.ProtocolVars {
				if reflua.IsName(v) {
					fmt.Fprintf(&b, "print(%s.msg.field)\n%s.msg2 = 1\n", v, v)
				}
			}
			if b.Len() > 0 {
				c.Files[0].Data = append([]byte(b.String()), c.Files[0].Data...)
			}
		}
	}
	// client model: what the editor holds (text), per open document
	type doc struct {
		open    bool
		text    string
		version int
		onDisk  bool
	}
	docs := map[string]*doc{}
	disk := map[string]string{}
	var names []string
	for _, f := range c.Files[:nf] {
		disk[f.Path] = string(f.Data)
		docs[f.Path] = &doc{onDisk: true}
		names = append(names, f.Path)
	}
	names = append(names, "extra.lua")
	docs["extra.lua"] = &doc{}
	edited := false
	n := rapid.IntRange(5, 40).Draw(t, "nsteps")
	for s := 0; s < n; s++ {
		name := rapid.SampledFrom(names).Draw(t, "doc")
		d := docs[name]
		k := rapid.IntRange(0, 19).Draw(t, "step")
		switch {
		case k <= 1: // open
			if d.open {
				continue
			}
			if !d.onDisk {
				// a client opens a new, not yet saved file
				d.text = "local created = 1\n"
			} else {
				d.text = validUTF8(disk[name])
			}
			d.open = true
			d.version = 1
			c.Steps = append(c.Steps, harness.DidOpen(name, d.text))
		case k <= 4: // change
			if !d.open {
				continue
			}
			d.version++
			edited = true
			if rapid.Bool().Draw(t, "fullChange") {
				d.text = validUTF8(string(genC01File(t, 9)))
				c.Steps = append(c.Steps, harness.DidChangeFull(name, d.version, d.text))
			} else {
				e := c02GenEdit(t, d.text)
				nt, _ := refmodel.Apply(d.text, e)
				d.text = nt
				c.Steps = append(c.Steps, proto.Step{Op: "notify", Method: "textDocument/didChange", Params: harness.J(harness.M{
					"textDocument":   harness.M{"uri": harness.URI(name), "version": d.version},
					"contentChanges": []harness.M{{"range": harness.M{"start": harness.Pos(e.SL, e.SC), "end": harness.Pos(e.EL, e.EC)}, "text": e.Text}}})})
			}
		case k == 5: // save
			if !d.open {
				continue
			}
			disk[name] = d.text
			d.onDisk = true
			c.Steps = append(c.Steps, proto.Step{Op: "write", Path: name, Data: []byte(d.text)}, harness.DidSave(name, d.text))
		case k == 6: // close
			if !d.open {
				continue
			}
			d.open = false
			c.Steps = append(c.Steps, harness.DidClose(name))
		case k == 7: // external create / change / delete of a closed file
			if d.open {
				continue
			}
			if d.onDisk && rapid.Bool().Draw(t, "delete") {
				delete(disk, name)
				d.onDisk = false
				c.Steps = append(c.Steps, proto.Step{Op: "remove", Path: name}, harness.Watched([2]interface{}{name, 3}))
			} else {
				typ := 2
				if !d.onDisk {
					typ = 1
				}
				content := genC01File(t, 8)
				disk[name] = string(content)
				d.onDisk = true
				c.Steps = append(c.Steps, proto.Step{Op: "write", Path: name, Data: content}, harness.Watched([2]interface{}{name, typ}))
			}
		case k == 8: // configuration change (sent twice by real clients at start-up; the server ignores the first)
			warn := harness.M{}
			for _, f := range harness.FlagNames {
				warn[f] = rapid.Bool().Draw(t, "cfgFlag")
			}
			params := harness.J(harness.M{"settings": harness.M{"luahelper": harness.M{"base": harness.M{
				"ReferenceMaxNum": rapid.IntRange(0, 5).Draw(t, "refMax"), "ReferenceIncudeDefine": rapid.Bool().Draw(t, "refDef"),
				"PreviewFieldsNum":     rapid.IntRange(0, 50).Draw(t, "preview"),
				"IgnoreFileOrDir":      rapid.SliceOfN(rapid.SampledFrom([]string{"sub/", "[", "u.*", ")"}), 0, 2).Draw(t, "cfgIgnore"),
				"RequirePathSeparator": rapid.SampledFrom([]string{".", "/"}).Draw(t, "cfgSep")}, "Warn": warn}}})
			c.Steps = append(c.Steps, proto.Step{Op: "notify", Method: "workspace/didChangeConfiguration", Params: params})
		case k == 9:
			c.Steps = append(c.Steps, proto.Step{Op: "notify", Method: "workspace/didChangeWorkspaceFolders", Params: harness.J(harness.M{"event": harness.M{
				"added": []harness.M{{"uri": proto.RootURI + "/sub", "name": "sub"}}, "removed": []harness.M{}}})})
		default: // a request on an open document
			if !d.open {
				continue
			}
			m := rapid.SampledFrom(c01Requests).Draw(t, "request")
			ps, cps := c01PositionsSplit(d.text)
			td := harness.M{"uri": harness.URI(name)}
			if len(cps) > 0 && rapid.IntRange(0, 5).Draw(t, "commentSweep") == 0 {
				// hover and definition at every word of the comments (annotation lines are parsed when asked)
				if len(cps) > 30 {
					cps = cps[:30]
				}
				for _, cp := range cps {
					pp := harness.J(harness.M{"textDocument": td, "position": harness.Pos(cp[0], cp[1])})
					c.Steps = append(c.Steps, harness.Call("textDocument/hover", pp), harness.Call("textDocument/definition", pp))
				}
				continue
			}
			p := ps[rapid.IntRange(0, len(ps)-1).Draw(t, "pos")]
			var params harness.M
			switch m {
			case "workspace/symbol":
				params = harness.M{"query": rapid.SampledFrom([]string{"", "G", "f", "a.b", ".", "@", "\x00", strings.Repeat("x", 200)}).Draw(t, "query")}
			case "textDocument/documentSymbol", "textDocument/codeLens", "textDocument/documentLink", "luahelper/getVarColor":
				params = harness.M{"textDocument": td}
			case "textDocument/references":
				params = harness.M{"textDocument": td, "position": harness.Pos(p[0], p[1]), "context": harness.M{"includeDeclaration": rapid.Bool().Draw(t, "inclDecl")}}
			case "textDocument/rename":
				params = harness.M{"textDocument": td, "position": harness.Pos(p[0], p[1]), "newName": rapid.SampledFrom([]string{"zz", "", "end", "a b", "é"}).Draw(t, "newName")}
			case "textDocument/completion":
				ctx := harness.M{"triggerKind": 1}
				if rapid.Bool().Draw(t, "trigger") {
					ctx = harness.M{"triggerKind": 2, "triggerCharacter": rapid.SampledFrom([]string{".", "\"", "'", ":", "-", "@", "#", " "}).Draw(t, "trigChar")}
				}
				params = harness.M{"textDocument": td, "position": harness.Pos(p[0], p[1]), "context": ctx}
			case "textDocument/signatureHelp":
				params = harness.M{"textDocument": td, "position": harness.Pos(p[0], p[1]), "context": harness.M{"triggerKind": 1, "isRetrigger": false}}
			case "completionItem/resolve":
				params = harness.M{"label": rapid.SampledFrom([]string{"print", "x", ""}).Draw(t, "resolveLabel"), "kind": 6, "data": rapid.IntRange(0, 300).Draw(t, "resolveData")}
			default:
				params = harness.M{"textDocument": td, "position": harness.Pos(p[0], p[1])}
			}
			st := harness.Call(m, harness.J(params))
			if edited {
				c.Note = "request-after-edit"
			}
			c.Steps = append(c.Steps, st)
		}
	}
	return c
}

// c01HangConfirmed counts hangs confirmed with the 120 s deadline in this process.
var c01HangConfirmed int32

func checkC01(c C01Case, env *Env) *Violation {
	req := &proto.Request{Cmd: "session", Files: c.Files, InitOptions: c.InitOptions, Steps: c.Steps, CallTimeoutMs: 20000}
	t0 := time.Now()
	o := env.Exec(req)
	if d := time.Since(t0); d > time.Duration(slowMs())*time.Millisecond && os.Getenv("VERIF_SLOWDIR") != "" {
		b, _ := json.Marshal(ReplayFile{Property: "C01", Message: fmt.Sprintf("slow: %v", d), Case: harness.J(c)})
		os.WriteFile(fmt.Sprintf("%s/slow-%d.json", os.Getenv("VERIF_SLOWDIR"), time.Now().UnixNano()), b, 0o644)
	}
	hung := (o.Resp != nil && o.Resp.Hung) || o.TimedOut
	if hung && atomic.LoadInt32(&c01HangConfirmed) > 0 {
		// a hang was already confirmed with the generous deadline in this run; while the failing case
		// is being shrunk, the 20 s deadline alone decides (the driver re-decides the final saved case
		// from scratch with the 120 s deadline before reporting it)
		return violf("crash", "the server process died or a request was never answered: %s\n%s", o.Describe(), c01Show(&c))
	}
	if o.Crash() && strings.Contains(o.Stderr, "stack overflow") || hung {
		// re-confirm under the default stack limit / alone with a generous deadline before reporting
		defer func() {
			if hung && o.Crash() {
				atomic.AddInt32(&c01HangConfirmed, 1)
			}
		}()
		req2 := *req
		req2.CallTimeoutMs = 120000
		o = pool.ExecFresh(&req2, "LHEXEC_MAXSTACK_MB=1000")
		if !o.Crash() && o.Resp != nil && o.Resp.Fatal == "" {
			env.Stats.Inconcl("a request exceeded 20 s (or the 128 MB stack) but completed when re-run alone with the default limits")
			return nil
		}
	}
	if o.Crash() {
		return violf("crash", "the server process died or a request was never answered: %s\n%s", o.Describe(), c01Show(&c))
	}
	if o.Resp.Fatal != "" {
		return violf("inconclusive", "executor: %s", o.Resp.Fatal)
	}
	if len(o.Resp.Recovered) > 0 {
		return violf("swallowed-panic", "the parser swallowed an internal fault and abandoned the analysis of a file: %v\n%s", o.Resp.Recovered, c01Show(&c))
	}
	st := env.Stats
	if o.Resp.InitError != "" {
		st.Class("initialize-error")
	}
	st.ClassN("steps", len(c.Steps))
	nonValid := false
	for _, f := range c.Files {
		if strings.HasSuffix(f.Path, ".lua") {
			res := reflua.Parse(string(f.Data))
			if res.Verdict != reflua.Valid || strings.Contains(string(f.Data), "---@") {
				nonValid = true
			}
		} else {
			st.Class("config-file")
		}
	}
	nreq := 0
	for _, s := range c.Steps {
		if s.Op == "call" {
			nreq++
			st.Class("req-" + s.Method)
		} else if s.Op == "notify" {
			st.Class("ntf-" + s.Method)
		}
	}
	st.mu.Lock()
	st.Queries += nreq
	st.mu.Unlock()
	if nonValid && c.Note == "request-after-edit" {
		b, _ := json.Marshal(c)
		if st.NT(string(b)) {
			st.Class("nontrivial")
			if len(b) < 3000 {
				st.Sample(3, c01Summary(&c))
			}
		}
	}
	return nil
}

func c01Summary(c *C01Case) map[string]interface{} {
	files := map[string]string{}
	for _, f := range c.Files {
		s := string(f.Data)
		if len(s) > 300 {
			s = s[:300] + "…"
		}
		files[f.Path] = s
	}
	var steps []string
	for _, s := range c.Steps {
		p := string(s.Params)
		if len(p) > 120 {
			p = p[:120] + "…"
		}
		steps = append(steps, s.Op+" "+s.Method+" "+s.Path+" "+p)
	}
	return map[string]interface{}{"files": files, "initOptions": c.InitOptions, "steps": steps}
}

func c01Show(c *C01Case) string {
	var b strings.Builder
	for _, f := range c.Files {
		s := string(f.Data)
		if len(s) > 600 {
			s = s[:600] + "…"
		}
		fmt.Fprintf(&b, "--- %s (%d bytes)\n%q\n", f.Path, len(f.Data), s)
	}
	fmt.Fprintf(&b, "--- initializationOptions: %s\n--- %d steps\n", string(c.InitOptions), len(c.Steps))
	for i, s := range c.Steps {
		if i > 60 {
			b.WriteString("…\n")
			break
		}
		p := string(s.Params)
		if len(p) > 200 {
			p = p[:200] + "…"
		}
		fmt.Fprintf(&b, "%d %s %s %s %s\n", i, s.Op, s.Method, s.Path, p)
	}
	return b.String()
}

func TestC01(t *testing.T) { runProp(t, "C01", genC01, checkC01) }

var _ = os.Getenv

func slowMs() int {
	n := 5000
	fmt.Sscan(os.Getenv("VERIF_SLOWMS"), &n)
	return n
}
