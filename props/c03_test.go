package props

import (
	"fmt"
	"strings"
	"testing"

	"pgregory.net/rapid"

	"verif/harness"
	"verif/luagen"
	"verif/proto"
	"verif/reflua"
)

// C03 — syntax diagnostics exactly for text that is not valid Lua.

type C03Case struct {
	Text   string `json:"text"`
	Origin string `json:"origin"` // valid | delete | duplicate | swap | substitute
	// Session: also push the text through a full LSP session and compare the type-1 diagnostics
	Session bool `json:"session,omitempty"`
}

func init() { register("C03", checkC03) }

func richConfig(t *rapid.T) luagen.Config {
	cfg := luagen.DefaultConfig()
	cfg.Naming = luagen.Naming(rapid.IntRange(0, 2).Draw(t, "naming"))
	cfg.Goto = true
	cfg.Attribs = true
	cfg.Self = true
	cfg.RichLits = true
	cfg.Bitops = true
	cfg.StringCalls = true
	cfg.BlockReturn = true
	cfg.MaxStats = 10
	return cfg
}

func genC03(t *rapid.T) C03Case {
	cfg := richConfig(t)
	toks := luagen.Program(t, cfg)
	origin := "valid"
	switch rapid.IntRange(0, 9).Draw(t, "mutate") {
	case 0, 1, 2:
	case 3, 4, 5, 6:
		toks, origin = luagen.Mutate(t, toks)
	case 7:
		toks, _ = luagen.Mutate(t, toks)
		toks, _ = luagen.Mutate(t, toks)
		origin = "double"
	default:
		toks, origin = luagen.InsertNegative(t, toks, func(tpl string) bool {
			// known finding C03-F3: escape sequences that only Lua 5.1 accepts are not rejected
			for _, e := range []string{`\q`, `\xZ`, `\u`} {
				if strings.Contains(tpl, e) && gate("c03-unknown-escape") {
					excluded()
					return true
				}
			}
			return false
		})
		if i := strings.Index(origin, ":"); i > 0 {
			negTpl := origin[i+1:]
			_ = negTpl
			origin = "negative"
		}
	}
	lay := luagen.LayoutCfg{Wild: rapid.IntRange(0, 3).Draw(t, "wild") > 0, EOLs: []string{"\n", "\r\n", "\r"}, Comments: true,
		NonASCII: true, Astral: true, Shebang: true}
	src, _ := luagen.Render(t, toks, lay)
	return C03Case{Text: src, Origin: origin, Session: rapid.IntRange(0, 19).Draw(t, "session") == 0}
}

var rareFeatures = []string{"attrib", "goto", "label", "idiv", "bitop", "hexfloat", "jitnum", "escape-z", "escape-u", "longstrN",
	"methodcall", "call-string", "call-table", "semicolon", "closure", "methoddef"}

func checkC03(c C03Case, env *Env) *Violation {
	res, _ := reflua.Analyze(c.Text)
	st := env.Stats
	if res.HighBytes {
		st.mu.Lock()
		st.DontCare++
		st.mu.Unlock()
		return nil
	}
	o := env.Exec(&proto.Request{Cmd: "parse", Text: []byte(c.Text)})
	if o.Crash() {
		return violf("crash", "parser died on %q: %s", c.Text, o.Describe())
	}
	if o.Resp.Fatal != "" {
		return violf("inconclusive", "executor: %s", o.Resp.Fatal)
	}
	nerr := len(o.Resp.ParseErrs)
	errs := ""
	for _, e := range o.Resp.ParseErrs {
		errs += fmt.Sprintf(" [%d:%d %s]", e.SL, e.SC, e.Msg)
	}
	st.Class("verdict-" + res.Verdict.String())
	st.Class("origin-" + c.Origin)
	switch res.Verdict {
	case reflua.ContextOnly:
		st.mu.Lock()
		st.DontCare++
		st.mu.Unlock()
		return nil
	case reflua.Valid:
		if nerr > 0 {
			return violf("valid-flagged", "valid Lua is reported with syntax errors:%s\n--- text:\n%s", errs, c.Text)
		}
		if len(o.Resp.Recovered) > 0 {
			return violf("swallowed-panic", "parser swallowed a panic on valid Lua: %v\n%s", o.Resp.Recovered, c.Text)
		}
		rare := 0
		for _, f := range rareFeatures {
			if res.Features[f] > 0 {
				rare++
				st.Class("feat-" + f)
			}
		}
		if len(res.Tokens) >= 8 && rare > 0 {
			if st.NT(c.Text) {
				st.Class("nontrivial")
				st.Sample(2, c)
			}
		}
	case reflua.Invalid:
		if nerr == 0 {
			return violf("invalid-clean", "invalid Lua (%v) is reported clean\n--- text:\n%s", res.Err, c.Text)
		}
		if c.Origin != "valid" {
			if st.NT(c.Text) {
				st.Class("nontrivial")
				st.Class("nontrivial-mutant")
				st.Sample(4, c)
			}
		}
	}
	if c.Session {
		return c03Session(c, res, env, nerr)
	}
	return nil
}

// c03Session: the same list must arrive as type-1 publishDiagnostics with only CheckSyntax enabled.
func c03Session(c C03Case, res *reflua.Result, env *Env, nerr int) *Violation {
	req := &proto.Request{Cmd: "session", Files: []proto.File{{Path: "m.lua", Data: []byte(c.Text)}},
		InitOptions: harness.J(harness.Flags(1))}
	o := env.Exec(req)
	if o.Crash() {
		return violf("crash", "server died analysing %q: %s", c.Text, o.Describe())
	}
	if o.Resp.Fatal != "" || o.Resp.InitError != "" {
		return violf("inconclusive", "executor: %s %s", o.Resp.Fatal, o.Resp.InitError)
	}
	view := harness.FoldDiags(o.Resp.Pushes, 1<<30)
	n1 := 0
	for _, d := range view[harness.URI("m.lua")] {
		if d.Type == 1 {
			n1++
		} else {
			return violf("session-other-type", "diagnostic of type %d although only CheckSyntax is enabled: %s", d.Type, d.Message)
		}
	}
	env.Stats.Class("session")
	if (n1 > 0) != (nerr > 0) {
		return violf("session-differs", "parser reports %d errors but %d type-1 diagnostics were published\n%s", nerr, n1, c.Text)
	}
	return nil
}

func TestC03(t *testing.T) { runProp(t, "C03", genC03, checkC03) }

var _ = strings.Contains
