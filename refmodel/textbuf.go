// Package refmodel holds small reference models written from the specifications (LSP text
// synchronisation, documented annotation grammar, documented module resolution, ...). It never
// links LuaHelper.
package refmodel

import (
	"unicode/utf8"
)

// Line describes one line of a text per the LSP specification: lines end at "\n", "\r\n" or "\r".
type Line struct {
	Start int // byte offset of the first byte
	End   int // byte offset just after the last content byte (before the line terminator)
	Next  int // byte offset of the next line's start (== len(text) for the last line)
}

// Lines splits a text into LSP lines. A text always has at least one line; a trailing terminator
// opens a final empty line.
func Lines(text string) []Line {
	var ls []Line
	start := 0
	i := 0
	for i < len(text) {
		c := text[i]
		if c == '\n' {
			ls = append(ls, Line{start, i, i + 1})
			i++
			start = i
		} else if c == '\r' {
			n := i + 1
			if n < len(text) && text[n] == '\n' {
				n++
			}
			ls = append(ls, Line{start, i, n})
			i = n
			start = i
		} else {
			i++
		}
	}
	ls = append(ls, Line{start, len(text), len(text)})
	return ls
}

// U16Len is the length of s in UTF-16 code units (invalid bytes count one unit each, like U+FFFD).
func U16Len(s string) int {
	n := 0
	for _, r := range s {
		if r >= 0x10000 {
			n += 2
		} else {
			n++
		}
	}
	return n
}

// OffsetOf converts an LSP position into a byte offset of text. Characters beyond the end of the
// line clamp to the line end ("defaults back to the line length"). ok is false for a line that does
// not exist or a character that falls inside a surrogate pair.
func OffsetOf(text string, line, char int) (off int, ok bool) {
	ls := Lines(text)
	if line < 0 || line >= len(ls) || char < 0 {
		return 0, false
	}
	l := ls[line]
	col := 0
	i := l.Start
	for i < l.End {
		if col == char {
			return i, true
		}
		r, sz := utf8.DecodeRuneInString(text[i:l.End])
		w := 1
		if r >= 0x10000 {
			w = 2
		}
		if col+w > char {
			return 0, false // inside a surrogate pair
		}
		col += w
		i += sz
	}
	return l.End, true
}

// PosOf converts a byte offset (on a rune boundary, not inside a line terminator) into an LSP
// position.
func PosOf(text string, off int) (line, char int) {
	ls := Lines(text)
	for li, l := range ls {
		if off >= l.Start && off <= l.End {
			return li, U16Len(text[l.Start:off])
		}
	}
	last := ls[len(ls)-1]
	return len(ls) - 1, U16Len(text[last.Start:last.End])
}

// Edit is one incremental change in LSP terms.
type Edit struct {
	SL, SC, EL, EC int
	Text           string
}

// Apply applies an incremental edit to text per the LSP specification.
func Apply(text string, e Edit) (string, bool) {
	s, ok1 := OffsetOf(text, e.SL, e.SC)
	t, ok2 := OffsetOf(text, e.EL, e.EC)
	if !ok1 || !ok2 || t < s {
		return text, false
	}
	return text[:s] + e.Text + text[t:], true
}

// Boundaries returns every byte offset of text that is a legal LSP position: rune boundaries that
// are not between "\r" and "\n" of one terminator.
func Boundaries(text string) []int {
	var bs []int
	for i := 0; i <= len(text); {
		if !(i > 0 && i < len(text) && text[i-1] == '\r' && text[i] == '\n') {
			bs = append(bs, i)
		}
		if i == len(text) {
			break
		}
		_, sz := utf8.DecodeRuneInString(text[i:])
		i += sz
	}
	return bs
}
