// Package harness runs executor children (lhexec) on behalf of the properties. It never links
// LuaHelper.
package harness

import (
	"bufio"
	"bytes"
	"encoding/json"
	"fmt"
	"io"
	"os"
	"os/exec"
	"strings"
	"sync"
	"syscall"
	"time"

	"verif/proto"
)

// Outcome of one request to a child.
type Outcome struct {
	Resp     *proto.Response
	Died     bool   // the child process died while handling the request
	ExitInfo string // exit status / signal
	Stderr   string // tail of stderr
	TimedOut bool   // the parent's hard deadline passed; the child was killed
}

// Crash reports whether the outcome shows the server process dying or hanging.
func (o *Outcome) Crash() bool { return o.Died || o.TimedOut || (o.Resp != nil && o.Resp.Hung) }

func (o *Outcome) Describe() string {
	switch {
	case o.Died:
		return "server process died: " + o.ExitInfo + "\n" + head(o.Stderr, 2500)
	case o.TimedOut:
		return "no answer before the hard deadline; child killed"
	case o.Resp != nil && o.Resp.Hung:
		return fmt.Sprintf("request at step %d not answered within the deadline", o.Resp.HungStep)
	case o.Resp != nil && o.Resp.Fatal != "":
		return "executor failure: " + o.Resp.Fatal
	}
	return "ok"
}

func head(s string, n int) string {
	if len(s) > n {
		return s[:n] + "…"
	}
	return s
}

func tail(s string, n int) string {
	if len(s) > n {
		return "…" + s[len(s)-n:]
	}
	return s
}

type Child struct {
	cmd    *exec.Cmd
	stdin  io.WriteCloser
	stdout *bufio.Reader
	stderr *ringBuf
	uses   int
	dead   bool
}

type ringBuf struct {
	mu   sync.Mutex
	head []byte
	b    []byte
}

func (r *ringBuf) Write(p []byte) (int, error) {
	r.mu.Lock()
	if len(r.head) < 3000 {
		n := 3000 - len(r.head)
		if n > len(p) {
			n = len(p)
		}
		r.head = append(r.head, p[:n]...)
	}
	r.b = append(r.b, p...)
	if len(r.b) > 1<<16 {
		r.b = append([]byte{}, r.b[len(r.b)-(1<<15):]...)
	}
	r.mu.Unlock()
	return len(p), nil
}

func (r *ringBuf) String() string {
	r.mu.Lock()
	defer r.mu.Unlock()
	if len(r.b) <= 3000 {
		return string(r.b)
	}
	return string(r.head) + "\n[...]\n" + string(r.b[len(r.b)-1500:])
}

// Bin returns the path of the executor binary (env LHEXEC, default /verif/bin/lhexec).
func Bin() string {
	if v := os.Getenv("LHEXEC"); v != "" {
		return v
	}
	return "/verif/bin/lhexec"
}

func Start(bin string, extraEnv ...string) (*Child, error) {
	cmd := exec.Command(bin)
	// LHEXEC_TASKSET=<cpu list> pins the child (the server sizes its worker pools with NumCPU)
	for _, e := range extraEnv {
		if strings.HasPrefix(e, "LHEXEC_TASKSET=") && len(e) > len("LHEXEC_TASKSET=") {
			cmd = exec.Command("taskset", "-c", strings.TrimPrefix(e, "LHEXEC_TASKSET="), bin)
		}
	}
	cmd.Env = append(os.Environ(), extraEnv...)
	cmd.SysProcAttr = &syscall.SysProcAttr{Pdeathsig: syscall.SIGKILL}
	in, err := cmd.StdinPipe()
	if err != nil {
		return nil, err
	}
	out, err := cmd.StdoutPipe()
	if err != nil {
		return nil, err
	}
	rb := &ringBuf{}
	cmd.Stderr = rb
	if err := cmd.Start(); err != nil {
		return nil, err
	}
	return &Child{cmd: cmd, stdin: in, stdout: bufio.NewReaderSize(out, 1<<20), stderr: rb}, nil
}

func (c *Child) Kill() {
	if c == nil || c.dead {
		return
	}
	c.dead = true
	c.stdin.Close()
	c.cmd.Process.Kill()
	c.cmd.Wait()
	// the child removes its scratch dir on clean exit only
	os.RemoveAll(fmt.Sprintf("/dev/shm/lhx-%d", c.cmd.Process.Pid))
	os.RemoveAll(fmt.Sprintf("%s/lhx-%d", os.TempDir(), c.cmd.Process.Pid))
}

// Close asks the child to quit and waits for it.
func (c *Child) Close() {
	if c == nil || c.dead {
		return
	}
	c.stdin.Write([]byte("{\"cmd\":\"quit\"}\n"))
	c.stdin.Close()
	done := make(chan struct{})
	go func() { c.cmd.Wait(); close(done) }()
	select {
	case <-done:
		c.dead = true
	case <-time.After(3 * time.Second):
		c.Kill()
	}
}

// Do sends one request and waits for its answer.
func (c *Child) Do(req *proto.Request, hard time.Duration) Outcome {
	b, err := json.Marshal(req)
	if err != nil {
		return Outcome{Resp: &proto.Response{Fatal: "marshal: " + err.Error()}}
	}
	b = append(b, '\n')
	c.uses++
	type rd struct {
		line []byte
		err  error
	}
	ch := make(chan rd, 1)
	go func() {
		// write may block on a dead child; do it in the goroutine
		if _, werr := c.stdin.Write(b); werr != nil {
			ch <- rd{nil, werr}
			return
		}
		line, rerr := c.stdout.ReadBytes('\n')
		ch <- rd{line, rerr}
	}()
	select {
	case r := <-ch:
		if r.err != nil || len(r.line) == 0 {
			c.dead = true
			werr := c.cmd.Wait()
			info := "exited"
			if werr != nil {
				info = werr.Error()
			}
			time.Sleep(5 * time.Millisecond)
			os.RemoveAll(fmt.Sprintf("/dev/shm/lhx-%d", c.cmd.Process.Pid))
			return Outcome{Died: true, ExitInfo: info, Stderr: c.stderr.String()}
		}
		var resp proto.Response
		if jerr := json.Unmarshal(r.line, &resp); jerr != nil {
			return Outcome{Resp: &proto.Response{Fatal: "bad response: " + jerr.Error()}}
		}
		if resp.Hung {
			c.dead = true
			c.cmd.Wait()
		}
		return Outcome{Resp: &resp}
	case <-time.After(hard):
		c.Kill()
		return Outcome{TimedOut: true, Stderr: c.stderr.String()}
	}
}

// ---------------------------------------------------------------------------------------------
// A small per-process pool: one long-lived child, recycled after N uses or any anomaly.

type Pool struct {
	mu      sync.Mutex
	bin     string
	env     []string
	cur     *Child
	MaxUses int
	Spawned int
}

func NewPool(bin string, env ...string) *Pool {
	return &Pool{bin: bin, env: env, MaxUses: 200}
}

// Exec runs a request in the pool's child (started on demand).
func (p *Pool) Exec(req *proto.Request) Outcome {
	p.mu.Lock()
	defer p.mu.Unlock()
	if p.cur != nil && (p.cur.dead || p.cur.uses >= p.MaxUses) {
		p.cur.Close()
		p.cur = nil
	}
	if p.cur == nil {
		c, err := Start(p.bin, p.env...)
		if err != nil {
			return Outcome{Resp: &proto.Response{Fatal: "cannot start executor: " + err.Error()}}
		}
		p.cur = c
		p.Spawned++
	}
	hard := 90 * time.Second
	if req.CallTimeoutMs > 0 {
		hard = time.Duration(req.CallTimeoutMs)*time.Millisecond*2 + 60*time.Second
	}
	o := p.cur.Do(req, hard)
	if o.Crash() || (o.Resp != nil && o.Resp.Fatal != "") {
		p.cur.Kill()
		p.cur = nil
	}
	return o
}

// ExecFresh runs a request in a brand-new child that is discarded afterwards.
func (p *Pool) ExecFresh(req *proto.Request, env ...string) Outcome {
	c, err := Start(p.bin, append(append([]string{}, p.env...), env...)...)
	if err != nil {
		return Outcome{Resp: &proto.Response{Fatal: "cannot start executor: " + err.Error()}}
	}
	hard := 150 * time.Second
	if req.CallTimeoutMs > 0 {
		hard = time.Duration(req.CallTimeoutMs)*time.Millisecond*2 + 60*time.Second
	}
	o := c.Do(req, hard)
	if o.Crash() {
		c.Kill()
	} else {
		c.Close()
	}
	return o
}

func (p *Pool) Close() {
	p.mu.Lock()
	defer p.mu.Unlock()
	if p.cur != nil {
		p.cur.Close()
		p.cur = nil
	}
}

// ---------------------------------------------------------------------------------------------
// helpers to build scripts

func J(v interface{}) json.RawMessage {
	b, err := json.Marshal(v)
	if err != nil {
		panic(err)
	}
	return b
}

func URI(rel string) string { return proto.RootURI + "/" + rel }

func RelOfURI(uri string) string { return strings.TrimPrefix(uri, proto.RootURI+"/") }

type M = map[string]interface{}

func Pos(line, ch int) M { return M{"line": line, "character": ch} }

func TDPos(rel string, line, ch int) json.RawMessage {
	return J(M{"textDocument": M{"uri": URI(rel)}, "position": Pos(line, ch)})
}

func DidOpen(rel, text string) proto.Step {
	return proto.Step{Op: "notify", Method: "textDocument/didOpen", Params: J(M{"textDocument": M{
		"uri": URI(rel), "languageId": "lua", "version": 1, "text": text}})}
}

func DidClose(rel string) proto.Step {
	return proto.Step{Op: "notify", Method: "textDocument/didClose", Params: J(M{"textDocument": M{"uri": URI(rel)}})}
}

func DidSave(rel, text string) proto.Step {
	return proto.Step{Op: "notify", Method: "textDocument/didSave", Params: J(M{"textDocument": M{"uri": URI(rel)}, "text": text})}
}

func DidChangeFull(rel string, version int, text string) proto.Step {
	return proto.Step{Op: "notify", Method: "textDocument/didChange", Params: J(M{"textDocument": M{"uri": URI(rel), "version": version},
		"contentChanges": []M{{"text": text}}})}
}

func Call(method string, params json.RawMessage) proto.Step {
	return proto.Step{Op: "call", Method: method, Params: params}
}

// Watched builds a workspace/didChangeWatchedFiles notification. typ: 1 created, 2 changed, 3 deleted.
func Watched(changes ...[2]interface{}) proto.Step {
	var cs []M
	for _, c := range changes {
		cs = append(cs, M{"uri": URI(c[0].(string)), "type": c[1]})
	}
	return proto.Step{Op: "notify", Method: "workspace/didChangeWatchedFiles", Params: J(M{"changes": cs})}
}

// AllOn is the initializationOptions object with every client check flag enabled.
func AllOn() M {
	m := M{"client": "vsc", "AllEnable": true}
	for _, k := range FlagNames[1:] {
		m[k] = true
	}
	return m
}

// FlagNames lists the client flags in the order of the check numbering (index 0 = master switch,
// index i = diagnostic type i).
var FlagNames = []string{"AllEnable", "CheckSyntax", "CheckNoDefine", "CheckAfterDefine", "CheckLocalNoUse",
	"CheckTableDuplicateKey", "CheckReferNoFile", "CheckAssignParamNum", "CheckLocalDefineParamNum", "CheckGotoLable",
	"CheckFuncParam", "CheckImportModuleVar", "CheckIfNotVar", "CheckFunctionDuplicateParam",
	"CheckBinaryExpressionDuplicate", "CheckErrorOrAlwaysTrue", "CheckErrorAndAlwaysFalse", "CheckNoUseAssign",
	"CheckAnnotateType", "CheckDuplicateIf", "CheckSelfAssign", "CheckFloatEq", "CheckClassField", "CheckConstAssign",
	"CheckFuncParamType", "CheckFuncReturnType"}

// Flags builds initializationOptions with exactly the listed diagnostic types enabled.
func Flags(types ...int) M {
	m := M{"client": "vsc", "AllEnable": true}
	for _, t := range types {
		m[FlagNames[t]] = true
	}
	return m
}

// FoldDiags folds a push stream into the per-URI view the client is left holding (empty lists
// removed). Only pushes with AfterStep <= upto are considered.
func FoldDiags(pushes []proto.Push, upto int) map[string][]proto.Diag {
	view := map[string][]proto.Diag{}
	for _, p := range pushes {
		if p.Method != "textDocument/publishDiagnostics" || p.AfterStep > upto {
			continue
		}
		if len(p.Diags) == 0 {
			delete(view, p.URI)
		} else {
			view[p.URI] = p.Diags
		}
	}
	return view
}

// ResultOf returns the StepResult for a step index.
func ResultOf(resp *proto.Response, step int) *proto.StepResult {
	for i := range resp.Results {
		if resp.Results[i].Step == step {
			return &resp.Results[i]
		}
	}
	return nil
}

var _ = bytes.Equal
