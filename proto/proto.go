// Package proto defines the JSON-lines protocol between the property harness (parent) and the
// executor child `lhexec`, the only program that links LuaHelper.
package proto

import "encoding/json"

// RootURI is the placeholder the parent uses for the workspace root; the executor substitutes the
// real directory in both directions, so answers of different children are comparable.
const RootURI = "file:///ROOT"

// RootPath is the placeholder for the root as a plain path.
const RootPath = "/ROOT"

type File struct {
	Path string `json:"path"` // relative, slash separated
	Data []byte `json:"data"`
}

// Step is one action of a session script.
type Step struct {
	// Op: notify | call | send (request without waiting) | write | remove | barrier | getdoc | drain
	Op     string          `json:"op"`
	Method string          `json:"method,omitempty"`
	Params json.RawMessage `json:"params,omitempty"`
	Path   string          `json:"path,omitempty"` // write/remove: relative path; getdoc: URI
	Data   []byte          `json:"data,omitempty"`
}

type Request struct {
	Cmd string `json:"cmd"` // session | parse | annot | ping | quit

	// session
	Files         []File          `json:"files,omitempty"`
	InitOptions   json.RawMessage `json:"initOptions,omitempty"` // initializationOptions (absent => server default)
	NoInitialized bool            `json:"noInitialized,omitempty"`
	Steps         []Step          `json:"steps,omitempty"`
	CallTimeoutMs int             `json:"callTimeoutMs,omitempty"`
	MaxProcs      int             `json:"maxProcs,omitempty"`

	// parse / annot
	Text  []byte   `json:"text,omitempty"`
	Lines []string `json:"lines,omitempty"`
}

type Diag struct {
	SL, SC, EL, EC int
	Type           int // parsed from "[Warn type:N]"
	Severity       int
	Message        string
	Related        []Related `json:",omitempty"`
}

type Related struct {
	URI            string
	SL, SC, EL, EC int
	Message        string
}

// Push is one textDocument/publishDiagnostics notification (or other server push).
type Push struct {
	AfterStep int             `json:"afterStep"` // index of the last completed step when it arrived (-2 = initialize, -1 = initialized)
	Method    string          `json:"method"`
	URI       string          `json:"uri,omitempty"`
	Diags     []Diag          `json:"diags,omitempty"`
	Raw       json.RawMessage `json:"raw,omitempty"` // non-diagnostic pushes
}

type StepResult struct {
	Step    int             `json:"step"`
	Result  json.RawMessage `json:"result,omitempty"`
	Error   string          `json:"error,omitempty"`
	Doc     []byte          `json:"doc,omitempty"`
	DocOK   bool            `json:"docOK,omitempty"`
	Timeout bool            `json:"timeout,omitempty"`
	Micros  int64           `json:"micros,omitempty"`
	// for send: sequence number at which the reply was read relative to steps
	ReplyAfterStep int `json:"replyAfterStep,omitempty"`
}

type ParseErr struct {
	SL, SC, EL, EC int
	Msg            string
}

type AnnotLine struct {
	OK    bool     `json:"ok"`
	Err   string   `json:"err,omitempty"`
	Dump  string   `json:"dump,omitempty"`  // S-expression of the annotation AST
	Types []string `json:"types,omitempty"` // TypeConvertStr of every type, in order
}

type Response struct {
	OK         bool            `json:"ok"`
	Fatal      string          `json:"fatal,omitempty"` // executor-level failure (not a verdict)
	InitError  string          `json:"initError,omitempty"`
	InitResult json.RawMessage `json:"initResult,omitempty"`
	Results    []StepResult    `json:"results,omitempty"`
	Pushes     []Push          `json:"pushes,omitempty"`
	Recovered  []string        `json:"recovered,omitempty"` // non-sentinel panics swallowed by the parser
	ParseErrs  []ParseErr      `json:"parseErrs,omitempty"`
	Annot      []AnnotLine     `json:"annot,omitempty"`
	HungStep   int             `json:"hungStep,omitempty"`
	Hung       bool            `json:"hung,omitempty"`
}
