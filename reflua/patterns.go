package reflua

import (
	"regexp"
	"strings"
)

// Reference matcher for the documented, purely syntactic checks (docs/manual/config.md):
//
//	5  duplicate key in a table constructor
//	7  more values than targets / fewer single-valued values than targets in an assignment
//	8  the same for a local declaration
//	13 duplicate parameter names
//	14 identical operands of == ~= < <= > >= and or
//	15 `x or true`           16 `x and false`
//	19 repeated if / elseif condition
//	20 self-assignment
//	21 == / ~= against a float literal
//
// Each finding is Hard (the documentation defines it) or Soft (a shape on which the documentation is
// silent or ambiguous: accepted either way).
type PatternHit struct {
	Type int
	Off  int // byte offset of the place (start of the reported construct)
	Soft bool
	Why  string
	// Region: for check 5 the span of the table constructor (the report may sit at the first or at
	// the repeated key)
	RegionOff, RegionEnd int
}

type patternWalker struct {
	hits []PatternHit
}

func (w *patternWalker) hit(t, off int, soft bool, why string) {
	w.hits = append(w.hits, PatternHit{Type: t, Off: off, Soft: soft, Why: why})
}

// FindPatterns returns every instance of the documented patterns in a parsed chunk.
func FindPatterns(res *Result) []PatternHit {
	w := &patternWalker{}
	w.block(res.Chunk)
	return w.hits
}

func (w *patternWalker) block(b *Block) {
	if b == nil {
		return
	}
	for _, s := range b.Stats {
		w.stat(s)
	}
}

// singleValued: an expression that yields exactly one value (not a call, not `...`).
func singleValued(e Exp) bool {
	switch e.(type) {
	case *CallExp, *VarargExp:
		return false
	}
	return true
}

func (w *patternWalker) arity(t int, off, nvars int, exps []Exp) {
	if len(exps) == 0 {
		return
	}
	switch {
	case nvars < len(exps):
		w.hit(t, off, false, "more values than targets")
	case nvars > len(exps):
		last := exps[len(exps)-1]
		if !singleValued(last) {
			return // the last value may expand
		}
		soft := false
		for _, e := range exps {
			switch e.(type) {
			case *NameExp, *StringExp, *NumberExp, *NilExp, *TrueExp, *FalseExp:
			default:
				// operators, index expressions, constructors, or a call in the middle (truncated to one
				// value): a real shortfall, but the check is only described for plain values
				soft = true
			}
		}
		w.hit(t, off, soft, "fewer single-valued values than targets")
	}
}

func (w *patternWalker) stat(s Stat) {
	switch t := s.(type) {
	case *LocalStat:
		w.arity(8, t.Off, len(t.Names), t.Exps)
		for _, e := range t.Exps {
			w.exp(e)
		}
	case *AssignStat:
		w.arity(7, t.Off, len(t.Targets), t.Exps)
		if len(t.Targets) == len(t.Exps) {
			same, soft := true, false
			for i := range t.Targets {
				eq, sf := SameExp(t.Targets[i], t.Exps[i])
				if !eq {
					same = false
				}
				soft = soft || sf
			}
			if same {
				w.hit(20, t.Off, soft, "self-assignment")
			}
		}
		for _, e := range t.Targets {
			w.exp(e)
		}
		for _, e := range t.Exps {
			w.exp(e)
		}
	case *CallStat:
		w.exp(t.Call)
	case *DoStat:
		w.block(t.Body)
	case *WhileStat:
		w.exp(t.Cond)
		w.block(t.Body)
	case *RepeatStat:
		w.block(t.Body)
		w.exp(t.Cond)
	case *IfStat:
		for j := 1; j < len(t.Conds); j++ {
			dups := 0
			soft := false
			for i := 0; i < j; i++ {
				if eq, sf := SameExp(t.Conds[i], t.Conds[j]); eq {
					dups++
					soft = soft || sf
				}
			}
			if dups > 0 {
				// three or more equal conditions: how many reports is unspecified
				w.hit(19, t.Conds[j].ESpan().Off, soft || dups > 1, "repeated if/elseif condition")
			}
		}
		for i, c := range t.Conds {
			w.exp(c)
			w.block(t.Blocks[i])
		}
		w.block(t.Else)
	case *NumForStat:
		w.exp(t.Start)
		w.exp(t.Limit)
		w.exp(t.Step)
		w.block(t.Body)
	case *GenForStat:
		for _, e := range t.Exps {
			w.exp(e)
		}
		w.block(t.Body)
	case *FuncStat:
		w.function(t.Func)
	case *LocalFuncStat:
		w.function(t.Func)
	case *ReturnStat:
		for _, e := range t.Exps {
			w.exp(e)
		}
	}
}

func (w *patternWalker) function(f *FuncExp) {
	seen := map[string]int{}
	for _, p := range f.Params {
		if p.Text == "_" {
			continue
		}
		if p.Text == "self" && f.Self != nil && seen["self"] == 0 {
			// `function t:m(self)`: whether the explicit parameter duplicates the implicit one is not documented
			w.hit(13, p.Off, true, "explicit self in a colon method")
		}
		seen[p.Text]++
		if seen[p.Text] == 2 {
			w.hit(13, p.Off, false, "duplicate parameter "+p.Text)
		} else if seen[p.Text] > 2 {
			w.hit(13, p.Off, true, "parameter repeated three times")
		}
	}
	w.block(f.Body)
}

// unparen strips redundant parentheses; reports whether there were any.
func unparen(e Exp) (Exp, bool) {
	had := false
	for {
		p, ok := e.(*ParenExp)
		if !ok {
			return e, had
		}
		e = p.X
		had = true
	}
}

var rePlainFloat = regexp.MustCompile(`^[0-9]+\.[0-9]+$`)

func isFloatLit(e Exp) (isFloat bool, plain bool) {
	n, ok := e.(*NumberExp)
	if !ok {
		return false, false
	}
	if rePlainFloat.MatchString(n.Raw) {
		return true, true
	}
	// other float spellings (3., .5, 1e10, hex floats): float for Lua, but the document only shows d.d
	if strings.ContainsAny(n.Raw, ".eEpP") && !strings.HasSuffix(strings.ToLower(n.Raw), "ll") {
		lower := strings.ToLower(n.Raw)
		if strings.HasPrefix(lower, "0x") && !strings.ContainsAny(lower, ".p") {
			return false, false // hex integer containing the digit e
		}
		return true, false
	}
	return false, false
}

func (w *patternWalker) exp(e Exp) {
	switch t := e.(type) {
	case nil:
	case *BinExp:
		switch t.Op {
		case "==", "~=", "<", "<=", ">", ">=", "and", "or":
			if eq, soft := SameExp(t.L, t.R); eq {
				w.hit(14, t.Off, soft, "identical operands of "+t.Op)
			}
		}
		l, lp := unparen(t.L)
		r, rp := unparen(t.R)
		if t.Op == "or" {
			if _, ok := r.(*TrueExp); ok {
				w.hit(15, t.Off, rp, "or true")
			} else if _, ok := l.(*TrueExp); ok {
				w.hit(15, t.Off, true, "true or x")
			}
		}
		if t.Op == "and" {
			if _, ok := r.(*FalseExp); ok {
				w.hit(16, t.Off, rp, "and false")
			} else if _, ok := l.(*FalseExp); ok {
				w.hit(16, t.Off, true, "false and x")
			}
		}
		if t.Op == "==" || t.Op == "~=" {
			rf, rplain := isFloatLit(r)
			lf, _ := isFloatLit(l)
			if rf {
				w.hit(21, t.Off, !rplain || rp, "equality test against a float literal")
			} else if lf {
				w.hit(21, t.Off, true, "float literal on the left")
			}
		}
		_ = lp
		w.exp(t.L)
		w.exp(t.R)
	case *UnExp:
		w.exp(t.X)
	case *ParenExp:
		w.exp(t.X)
	case *IndexExp:
		w.exp(t.Obj)
		if t.KeyName == nil {
			w.exp(t.Key)
		}
	case *CallExp:
		w.exp(t.Fn)
		for _, a := range t.Args {
			w.exp(a)
		}
	case *FuncExp:
		w.function(t)
	case *TableExp:
		first := len(w.hits)
		defer func() {
			for i := first; i < len(w.hits); i++ {
				if w.hits[i].Type == 5 && w.hits[i].RegionEnd == 0 {
					w.hits[i].RegionOff, w.hits[i].RegionEnd = t.Off, t.End
				}
			}
		}()
		seen := map[string]int{}
		positional := 0
		for _, f := range t.Fields {
			key := ""
			switch {
			case f.KeyName != nil:
				key = "s:" + f.KeyName.Text
			case f.KeyExp != nil:
				switch k := f.KeyExp.(type) {
				case *StringExp:
					key = "s:" + k.Value
				case *NumberExp:
					if regexp.MustCompile(`^[0-9]+$`).MatchString(k.Raw) {
						key = "n:" + strings.TrimLeft(k.Raw, "0")
					}
				}
			default:
				positional++
			}
			if key == "" && f.KeyExp != nil {
				// a key that is not a string / integer literal ([v], [(0)], [a.b]): if it is written like
				// an earlier key the result is unspecified
				for _, g := range t.Fields {
					if g == f {
						break
					}
					if g.KeyExp != nil {
						if same, _ := SameExp(g.KeyExp, f.KeyExp); same {
							w.hit(5, f.Off, true, "same non-literal key expression")
							break
						}
						ug, _ := unparen(g.KeyExp)
						uf, _ := unparen(f.KeyExp)
						if same, _ := SameExp(ug, uf); same {
							w.hit(5, f.Off, true, "same key expression up to parentheses")
							break
						}
					}
				}
			}
			if key != "" && f.KeyExp != nil {
				// an earlier key that is this literal in parentheses ([(1)] ... [1]): unspecified
				for _, g := range t.Fields {
					if g == f {
						break
					}
					if g.KeyExp != nil {
						if ug, had := unparen(g.KeyExp); had {
							if same, _ := SameExp(ug, f.KeyExp); same {
								w.hit(5, f.Off, true, "same key expression up to parentheses")
								break
							}
						}
					}
				}
			}
			if key != "" {
				seen[key]++
				if seen[key] == 2 {
					w.hit(5, f.Off, false, "duplicate key "+key)
				} else if seen[key] > 2 {
					w.hit(5, f.Off, true, "key repeated three times")
				}
			}
			if f.KeyExp != nil {
				w.exp(f.KeyExp)
			}
			w.exp(f.Value)
		}
		// an explicit [n] that collides with a positional entry: unspecified
		for k := range seen {
			if strings.HasPrefix(k, "n:") && positional > 0 {
				w.hits = append(w.hits, PatternHit{Type: 5, Off: t.Off, Soft: true, Why: "explicit index vs positional entry"})
				break
			}
		}
	}
}

// SameExp reports whether two expressions are written identically (structural equality). soft is
// set when the equality involves shapes the documentation does not show: calls, parentheses, the
// length operator, literals on both sides, function or table constructors.
func SameExp(a, b Exp) (same bool, soft bool) {
	// operands that differ only by redundant parentheses: unspecified
	ua, pa := unparen(a)
	ub, pb := unparen(b)
	if pa || pb {
		s, _ := SameExp(ua, ub)
		return s, true
	}
	switch x := a.(type) {
	case *NameExp:
		y, ok := b.(*NameExp)
		return ok && x.Name.Text == y.Name.Text, false
	case *IndexExp:
		y, ok := b.(*IndexExp)
		if !ok {
			return false, false
		}
		s1, f1 := SameExp(x.Obj, y.Obj)
		if !s1 {
			return false, false
		}
		if x.KeyName != nil || y.KeyName != nil {
			if x.KeyName != nil && y.KeyName != nil {
				return x.KeyName.Text == y.KeyName.Text, f1
			}
			// t.k vs t["k"]
			var kn *Name
			var ke Exp
			if x.KeyName != nil {
				kn, ke = x.KeyName, y.Key
			} else {
				kn, ke = y.KeyName, x.Key
			}
			if se, ok := ke.(*StringExp); ok && se.Value == kn.Text {
				return true, true
			}
			return false, false
		}
		s2, f2 := SameExp(x.Key, y.Key)
		return s2, f1 || f2 || true // bracket keys: the document shows dotted access only
	case *ParenExp:
		y, ok := b.(*ParenExp)
		if !ok {
			return false, false
		}
		s, _ := SameExp(x.X, y.X)
		return s, true
	case *NilExp:
		_, ok := b.(*NilExp)
		return ok, true
	case *TrueExp:
		_, ok := b.(*TrueExp)
		return ok, true
	case *FalseExp:
		_, ok := b.(*FalseExp)
		return ok, true
	case *VarargExp:
		_, ok := b.(*VarargExp)
		return ok, true
	case *NumberExp:
		y, ok := b.(*NumberExp)
		return ok && x.Raw == y.Raw, true
	case *StringExp:
		y, ok := b.(*StringExp)
		return ok && x.Value == y.Value, true
	case *UnExp:
		y, ok := b.(*UnExp)
		if !ok || x.Op != y.Op {
			return false, false
		}
		s, _ := SameExp(x.X, y.X)
		return s, true
	case *BinExp:
		y, ok := b.(*BinExp)
		if !ok || x.Op != y.Op {
			return false, false
		}
		s1, _ := SameExp(x.L, y.L)
		s2, _ := SameExp(x.R, y.R)
		return s1 && s2, true
	case *CallExp:
		y, ok := b.(*CallExp)
		if !ok || len(x.Args) != len(y.Args) || (x.Method == nil) != (y.Method == nil) {
			return false, false
		}
		if x.Method != nil && x.Method.Text != y.Method.Text {
			return false, false
		}
		if s, _ := SameExp(x.Fn, y.Fn); !s {
			return false, false
		}
		for i := range x.Args {
			if s, _ := SameExp(x.Args[i], y.Args[i]); !s {
				return false, false
			}
		}
		return true, true
	case *FuncExp, *TableExp:
		// never compared by the documented checks; if the text is identical the result is unspecified
		return false, false
	}
	return false, false
}
