// Package reflua is an independent reference front end for Lua 5.3/5.4 (+ LuaJIT LL/ULL integer
// suffixes): lexer, parser with a three-valued validity verdict, and a lexical-scoping binder.
// Written from the Lua 5.4 reference manual (§3, §9) and llex.c's lexical rules. It never links
// LuaHelper.
package reflua

import (
	"fmt"
	"regexp"
	"strings"
)

type TokKind int

const (
	TEOF TokKind = iota
	TName
	TKeyword
	TNumber
	TString
	TOp
)

type Token struct {
	Kind  TokKind
	Text  string // source text of the token
	Off   int    // byte offset of the first byte
	End   int    // byte offset just after the token
	Value string // for strings: the decoded value
	Long  bool   // long-bracket string
	// lexical features seen in this token (for classification)
	Feat string
}

// Comment is a comment in the source.
type Comment struct {
	Off, End int
	Long     bool
	Text     string // content without the leading "--" / brackets
}

var keywords = map[string]bool{"and": true, "break": true, "do": true, "else": true, "elseif": true, "end": true,
	"false": true, "for": true, "function": true, "goto": true, "if": true, "in": true, "local": true, "nil": true,
	"not": true, "or": true, "repeat": true, "return": true, "then": true, "true": true, "until": true, "while": true}

func IsKeyword(s string) bool { return keywords[s] }

type LexError struct {
	Off int
	Msg string
}

func (e *LexError) Error() string { return fmt.Sprintf("lex error at %d: %s", e.Off, e.Msg) }

type Lexer struct {
	src      string
	pos      int
	Comments []Comment
	// HighBytes is set when a byte >= 0x80 occurs outside strings and comments
	HighBytes bool
}

func NewLexer(src string) *Lexer {
	l := &Lexer{src: src}
	// skip UTF-8 BOM and a first line starting with '#'
	if strings.HasPrefix(l.src, "\xEF\xBB\xBF") {
		l.pos = 3
	}
	if l.pos < len(l.src) && l.src[l.pos] == '#' {
		for l.pos < len(l.src) && l.src[l.pos] != '\n' && l.src[l.pos] != '\r' {
			l.pos++
		}
	}
	return l
}

func isSpace(c byte) bool {
	return c == ' ' || c == '\t' || c == '\v' || c == '\f' || c == '\n' || c == '\r'
}
func isDigit(c byte) bool  { return c >= '0' && c <= '9' }
func isAlpha(c byte) bool  { return c >= 'a' && c <= 'z' || c >= 'A' && c <= 'Z' || c == '_' }
func isXDigit(c byte) bool { return isDigit(c) || c >= 'a' && c <= 'f' || c >= 'A' && c <= 'F' }

// longBracket: at l.src[p] == '[', returns the level if a long bracket opens here, else -1.
func (l *Lexer) longBracket(p int) int {
	q := p + 1
	for q < len(l.src) && l.src[q] == '=' {
		q++
	}
	if q < len(l.src) && l.src[q] == '[' {
		return q - p - 1
	}
	return -1
}

// readLong reads a long string/comment whose opening bracket of `level` starts at p. Returns the
// content, the offset after the closing bracket, ok=false if unterminated.
func (l *Lexer) readLong(p, level int) (string, int, bool) {
	start := p + level + 2
	closer := "]" + strings.Repeat("=", level) + "]"
	idx := strings.Index(l.src[start:], closer)
	if idx < 0 {
		return "", len(l.src), false
	}
	content := l.src[start : start+idx]
	// the first newline directly after the opening bracket is skipped
	if strings.HasPrefix(content, "\r\n") || strings.HasPrefix(content, "\n\r") {
		content = content[2:]
	} else if strings.HasPrefix(content, "\n") || strings.HasPrefix(content, "\r") {
		content = content[1:]
	}
	return content, start + idx + len(closer), true
}

var (
	reDec   = regexp.MustCompile(`^(?:[0-9]+(?:\.[0-9]*)?|\.[0-9]+)(?:[eE][+-]?[0-9]+)?$`)
	reHex   = regexp.MustCompile(`^0[xX](?:[0-9a-fA-F]+(?:\.[0-9a-fA-F]*)?|\.[0-9a-fA-F]+)(?:[pP][+-]?[0-9]+)?$`)
	reJitLL = regexp.MustCompile(`^(?:[0-9]+|0[xX][0-9a-fA-F]+)[uU]?[lL][lL]$`)
)

// ValidNumeral reports whether s is a numeral of Lua 5.3/5.4 or a LuaJIT LL/ULL integer.
func ValidNumeral(s string) bool {
	return reDec.MatchString(s) || reHex.MatchString(s) || reJitLL.MatchString(s)
}

// Next returns the next token.
func (l *Lexer) Next() (Token, *LexError) {
	for {
		if l.pos >= len(l.src) {
			return Token{Kind: TEOF, Off: len(l.src), End: len(l.src)}, nil
		}
		c := l.src[l.pos]
		if isSpace(c) {
			l.pos++
			continue
		}
		if c == '-' && l.pos+1 < len(l.src) && l.src[l.pos+1] == '-' {
			start := l.pos
			p := l.pos + 2
			if p < len(l.src) && l.src[p] == '[' {
				if lv := l.longBracket(p); lv >= 0 {
					content, end, ok := l.readLong(p, lv)
					if !ok {
						l.pos = len(l.src)
						return Token{}, &LexError{start, "unfinished long comment"}
					}
					l.Comments = append(l.Comments, Comment{Off: start, End: end, Long: true, Text: content})
					l.pos = end
					continue
				}
			}
			q := p
			for q < len(l.src) && l.src[q] != '\n' && l.src[q] != '\r' {
				q++
			}
			l.Comments = append(l.Comments, Comment{Off: start, End: q, Text: l.src[p:q]})
			l.pos = q
			continue
		}
		break
	}
	start := l.pos
	c := l.src[l.pos]
	op := func(n int) (Token, *LexError) {
		l.pos += n
		return Token{Kind: TOp, Text: l.src[start:l.pos], Off: start, End: l.pos}, nil
	}
	has := func(s string) bool { return strings.HasPrefix(l.src[l.pos:], s) }
	switch c {
	case '+', '*', '%', '^', '#', '&', '|', '(', ')', '{', '}', ']', ';', ',', '-':
		return op(1)
	case '/':
		if has("//") {
			return op(2)
		}
		return op(1)
	case '~':
		if has("~=") {
			return op(2)
		}
		return op(1)
	case '<':
		if has("<<") || has("<=") {
			return op(2)
		}
		return op(1)
	case '>':
		if has(">>") || has(">=") {
			return op(2)
		}
		return op(1)
	case '=':
		if has("==") {
			return op(2)
		}
		return op(1)
	case ':':
		if has("::") {
			return op(2)
		}
		return op(1)
	case '.':
		if has("...") {
			return op(3)
		}
		if has("..") {
			return op(2)
		}
		if l.pos+1 < len(l.src) && isDigit(l.src[l.pos+1]) {
			return l.number()
		}
		return op(1)
	case '[':
		if lv := l.longBracket(l.pos); lv >= 0 {
			content, end, ok := l.readLong(l.pos, lv)
			if !ok {
				l.pos = len(l.src)
				return Token{}, &LexError{start, "unfinished long string"}
			}
			l.pos = end
			feat := "longstr0"
			if lv > 0 {
				feat = "longstrN"
			}
			return Token{Kind: TString, Text: l.src[start:end], Off: start, End: end, Value: content, Long: true, Feat: feat}, nil
		}
		// "[=" not followed by '[' is an invalid long string delimiter in Lua
		if l.pos+1 < len(l.src) && l.src[l.pos+1] == '=' {
			return Token{}, &LexError{start, "invalid long string delimiter"}
		}
		return op(1)
	case '"', '\'':
		return l.shortString()
	}
	if isDigit(c) {
		return l.number()
	}
	if isAlpha(c) {
		p := l.pos
		for p < len(l.src) && (isAlpha(l.src[p]) || isDigit(l.src[p])) {
			p++
		}
		l.pos = p
		text := l.src[start:p]
		if keywords[text] {
			return Token{Kind: TKeyword, Text: text, Off: start, End: p}, nil
		}
		return Token{Kind: TName, Text: text, Off: start, End: p}, nil
	}
	if c >= 0x80 {
		l.HighBytes = true
	}
	l.pos++
	return Token{}, &LexError{start, fmt.Sprintf("unexpected symbol %q", c)}
}

func (l *Lexer) number() (Token, *LexError) {
	start := l.pos
	p := l.pos
	expo := "eE"
	if l.src[p] == '0' && p+1 < len(l.src) && (l.src[p+1] == 'x' || l.src[p+1] == 'X') {
		expo = "pP"
		p += 2
	}
	for p < len(l.src) {
		ch := l.src[p]
		if strings.IndexByte(expo, ch) >= 0 {
			p++
			if p < len(l.src) && (l.src[p] == '+' || l.src[p] == '-') {
				p++
			}
			continue
		}
		if isAlpha(ch) || isDigit(ch) || ch == '.' {
			p++
			continue
		}
		break
	}
	l.pos = p
	text := l.src[start:p]
	if !ValidNumeral(text) {
		return Token{}, &LexError{start, "malformed number near " + text}
	}
	feat := ""
	switch {
	case reJitLL.MatchString(text):
		feat = "jitnum"
	case reHex.MatchString(text) && strings.ContainsAny(text, ".pP"):
		feat = "hexfloat"
	case reHex.MatchString(text):
		feat = "hexint"
	case strings.ContainsAny(text, ".eE"):
		feat = "float"
	}
	return Token{Kind: TNumber, Text: text, Off: start, End: p, Feat: feat}, nil
}

func (l *Lexer) shortString() (Token, *LexError) {
	start := l.pos
	delim := l.src[l.pos]
	p := l.pos + 1
	var val strings.Builder
	feat := ""
	for {
		if p >= len(l.src) {
			l.pos = p
			return Token{}, &LexError{start, "unfinished string"}
		}
		ch := l.src[p]
		if ch == delim {
			p++
			break
		}
		if ch == '\n' || ch == '\r' {
			l.pos = p
			return Token{}, &LexError{start, "unfinished string"}
		}
		if ch != '\\' {
			val.WriteByte(ch)
			p++
			continue
		}
		feat = "escape"
		p++
		if p >= len(l.src) {
			l.pos = p
			return Token{}, &LexError{start, "unfinished string"}
		}
		e := l.src[p]
		switch e {
		case 'a':
			val.WriteByte('\a')
			p++
		case 'b':
			val.WriteByte('\b')
			p++
		case 'f':
			val.WriteByte('\f')
			p++
		case 'n':
			val.WriteByte('\n')
			p++
		case 'r':
			val.WriteByte('\r')
			p++
		case 't':
			val.WriteByte('\t')
			p++
		case 'v':
			val.WriteByte('\v')
			p++
		case '\\', '"', '\'':
			val.WriteByte(e)
			p++
		case '\n', '\r':
			val.WriteByte('\n')
			p++
			if p < len(l.src) && (l.src[p] == '\n' || l.src[p] == '\r') && l.src[p] != e {
				p++
			}
		case 'x':
			if p+2 < len(l.src) && isXDigit(l.src[p+1]) && isXDigit(l.src[p+2]) {
				var v int
				fmt.Sscanf(l.src[p+1:p+3], "%x", &v)
				val.WriteByte(byte(v))
				p += 3
			} else {
				l.pos = p
				return Token{}, &LexError{p, "hexadecimal digit expected"}
			}
		case 'z':
			p++
			for p < len(l.src) && isSpace(l.src[p]) {
				p++
			}
			feat = "escape-z"
		case 'u':
			// \u{XXX}
			q := p + 1
			if q >= len(l.src) || l.src[q] != '{' {
				l.pos = p
				return Token{}, &LexError{p, "missing '{' in \\u{xxxx}"}
			}
			q++
			n := 0
			v := uint64(0)
			for q < len(l.src) && isXDigit(l.src[q]) {
				var d int
				fmt.Sscanf(l.src[q:q+1], "%x", &d)
				v = v*16 + uint64(d)
				if v > 0x7FFFFFFF {
					l.pos = q
					return Token{}, &LexError{p, "UTF-8 value too large"}
				}
				n++
				q++
			}
			if n == 0 || q >= len(l.src) || l.src[q] != '}' {
				l.pos = q
				return Token{}, &LexError{p, "malformed \\u{xxxx}"}
			}
			val.WriteString(string(rune(v)))
			p = q + 1
			feat = "escape-u"
		default:
			if isDigit(e) {
				v := 0
				n := 0
				for n < 3 && p < len(l.src) && isDigit(l.src[p]) {
					v = v*10 + int(l.src[p]-'0')
					p++
					n++
				}
				if v > 255 {
					l.pos = p
					return Token{}, &LexError{p, "decimal escape too large"}
				}
				val.WriteByte(byte(v))
			} else {
				l.pos = p
				return Token{}, &LexError{p, "invalid escape sequence"}
			}
		}
	}
	l.pos = p
	return Token{Kind: TString, Text: l.src[start:p], Off: start, End: p, Value: val.String(), Feat: feat}, nil
}

// Tokenize returns all tokens of src (without the final EOF) or the first lexical error.
func Tokenize(src string) ([]Token, []Comment, *LexError) {
	l := NewLexer(src)
	var toks []Token
	for {
		t, err := l.Next()
		if err != nil {
			return toks, l.Comments, err
		}
		if t.Kind == TEOF {
			return toks, l.Comments, nil
		}
		toks = append(toks, t)
	}
}

// IsName reports whether s is a Lua identifier (not a keyword).
func IsName(s string) bool {
	if s == "" || keywords[s] {
		return false
	}
	for i := 0; i < len(s); i++ {
		c := s[i]
		if !(c == '_' || c >= 'a' && c <= 'z' || c >= 'A' && c <= 'Z' || i > 0 && c >= '0' && c <= '9') {
			return false
		}
	}
	return true
}
