package reflua

import (
	"fmt"
)

type Verdict int

const (
	Valid       Verdict = iota // a syntactically valid chunk with no context error
	Invalid                    // violates the lexical rules or the context-free grammar
	ContextOnly                // grammatically a chunk, rejected by the reference compiler for a context condition
)

func (v Verdict) String() string {
	return [...]string{"valid", "invalid", "context-only"}[v]
}

type SyntaxError struct {
	Off int
	Msg string
}

func (e *SyntaxError) Error() string { return fmt.Sprintf("syntax error at %d: %s", e.Off, e.Msg) }

// Result of parsing a chunk.
type Result struct {
	Src      string
	Verdict  Verdict
	Err      *SyntaxError // for Invalid
	Context  []SyntaxError
	Chunk    *Block
	Tokens   []Token
	Comments []Comment
	// HighBytes: a byte >= 0x80 occurs outside strings and comments (Lua builds differ on those)
	HighBytes bool
	Features  map[string]int
}

type funcCtx struct {
	vararg bool
	parent *funcCtx
	blocks []*blockCtx
	gotos  []pendingGoto
}

type blockCtx struct {
	loop   bool
	labels map[string]int // label name -> offset
	block  *Block
}

type pendingGoto struct {
	name   *Name
	blocks []*blockCtx // enclosing blocks at the goto, innermost last
}

type parser struct {
	lx   *Lexer
	tok  Token
	peek *Token
	toks []Token
	ctx  []SyntaxError
	fn   *funcCtx
	feat map[string]int
	prev Token
}

type parsePanic struct{ err *SyntaxError }

func (p *parser) fail(off int, f string, a ...interface{}) {
	panic(parsePanic{&SyntaxError{off, fmt.Sprintf(f, a...)}})
}

func (p *parser) ctxErr(off int, f string, a ...interface{}) {
	p.ctx = append(p.ctx, SyntaxError{off, fmt.Sprintf(f, a...)})
}

func (p *parser) lexNext() Token {
	t, err := p.lx.Next()
	if err != nil {
		panic(parsePanic{&SyntaxError{err.Off, err.Msg}})
	}
	if t.Kind != TEOF {
		p.toks = append(p.toks, t)
		if t.Feat != "" {
			p.feat[t.Feat]++
		}
	}
	return t
}

func (p *parser) next() {
	p.prev = p.tok
	if p.peek != nil {
		p.tok = *p.peek
		p.peek = nil
		return
	}
	p.tok = p.lexNext()
}

func (p *parser) lookahead() Token {
	if p.peek == nil {
		t := p.lexNext()
		p.peek = &t
	}
	return *p.peek
}

func (p *parser) isOp(s string) bool { return p.tok.Kind == TOp && p.tok.Text == s }
func (p *parser) isKw(s string) bool { return p.tok.Kind == TKeyword && p.tok.Text == s }

func (p *parser) expectOp(s string) Token {
	if !p.isOp(s) {
		p.fail(p.tok.Off, "'%s' expected near '%s'", s, p.tokText())
	}
	t := p.tok
	p.next()
	return t
}

func (p *parser) expectKw(s string) Token {
	if !p.isKw(s) {
		p.fail(p.tok.Off, "'%s' expected near '%s'", s, p.tokText())
	}
	t := p.tok
	p.next()
	return t
}

func (p *parser) tokText() string {
	if p.tok.Kind == TEOF {
		return "<eof>"
	}
	return p.tok.Text
}

func (p *parser) name() *Name {
	if p.tok.Kind != TName {
		p.fail(p.tok.Off, "<name> expected near '%s'", p.tokText())
	}
	n := &Name{Span{p.tok.Off, p.tok.End}, p.tok.Text}
	p.next()
	return n
}

// Parse parses src as a chunk.
func Parse(src string) (res *Result) {
	p := &parser{lx: NewLexer(src), feat: map[string]int{}}
	res = &Result{Src: src, Features: p.feat}
	defer func() {
		res.Tokens = p.toks
		res.Comments = p.lx.Comments
		res.HighBytes = p.lx.HighBytes
		if r := recover(); r != nil {
			pp, ok := r.(parsePanic)
			if !ok {
				panic(r)
			}
			res.Verdict = Invalid
			res.Err = pp.err
			res.Chunk = nil
			// drain the lexer so that comments/high bytes are known (best effort)
			return
		}
	}()
	p.fn = &funcCtx{vararg: true}
	p.next()
	blk := p.block(false)
	if p.tok.Kind != TEOF {
		p.fail(p.tok.Off, "'<eof>' expected near '%s'", p.tokText())
	}
	p.closeFunc()
	res.Chunk = blk
	res.Context = p.ctx
	if len(p.ctx) > 0 {
		res.Verdict = ContextOnly
	}
	return res
}

func (p *parser) blockFollow(withUntil bool) bool {
	if p.tok.Kind == TEOF {
		return true
	}
	if p.tok.Kind == TKeyword {
		switch p.tok.Text {
		case "else", "elseif", "end":
			return true
		case "until":
			return withUntil
		}
	}
	return false
}

func (p *parser) openBlock(loop bool) *blockCtx {
	b := &blockCtx{loop: loop, labels: map[string]int{}}
	p.fn.blocks = append(p.fn.blocks, b)
	return b
}

func (p *parser) closeBlock() {
	p.fn.blocks = p.fn.blocks[:len(p.fn.blocks)-1]
}

// block parses a statement list in a new scope block.
func (p *parser) block(loop bool) *Block {
	bc := p.openBlock(loop)
	blk := &Block{}
	bc.block = blk
	blk.Off = p.tok.Off
	for !p.blockFollow(true) {
		if p.isKw("return") {
			blk.Stats = append(blk.Stats, p.retStat())
			break
		}
		blk.Stats = append(blk.Stats, p.statement())
	}
	blk.End = p.prev.End
	if len(blk.Stats) == 0 {
		blk.End = blk.Off
	}
	p.closeBlock()
	return blk
}

func (p *parser) closeFunc() {
	// resolve gotos of this function
	for _, g := range p.fn.gotos {
		found := false
		for i := len(g.blocks) - 1; i >= 0 && !found; i-- {
			b := g.blocks[i]
			if off, ok := b.labels[g.name.Text]; ok {
				found = true
				// forward jump into the scope of a local?
				if off > g.name.Off && b.block != nil {
					localBetween := false
					labelAtEnd := true
					for _, s := range b.block.Stats {
						sp := s.SSpan()
						if sp.Off > g.name.Off && sp.End <= off {
							switch s.(type) {
							case *LocalStat, *LocalFuncStat:
								localBetween = true
							}
						}
						if sp.Off > off {
							switch s.(type) {
							case *LabelStat, *SemiStat:
							default:
								labelAtEnd = false
							}
						}
					}
					if localBetween && !labelAtEnd {
						p.ctxErr(g.name.Off, "goto jumps into the scope of a local")
					}
				}
			}
		}
		if !found {
			p.ctxErr(g.name.Off, "no visible label '%s' for goto", g.name.Text)
		}
	}
}

func (p *parser) statement() Stat {
	start := p.tok.Off
	if p.tok.Kind == TOp {
		switch p.tok.Text {
		case ";":
			p.next()
			p.feat["semicolon"]++
			return &SemiStat{Span{start, p.prev.End}}
		case "::":
			p.next()
			n := p.name()
			p.expectOp("::")
			p.feat["label"]++
			// duplicate label among the visible labels of this function
			for _, b := range p.fn.blocks {
				if _, dup := b.labels[n.Text]; dup {
					p.ctxErr(n.Off, "label '%s' already defined", n.Text)
				}
			}
			p.fn.blocks[len(p.fn.blocks)-1].labels[n.Text] = n.Off
			return &LabelStat{Span{start, p.prev.End}, n}
		}
	}
	if p.tok.Kind == TKeyword {
		switch p.tok.Text {
		case "if":
			return p.ifStat()
		case "while":
			p.next()
			cond := p.expr()
			p.expectKw("do")
			body := p.block(true)
			p.expectKw("end")
			return &WhileStat{Span{start, p.prev.End}, cond, body}
		case "do":
			p.next()
			body := p.block(false)
			p.expectKw("end")
			return &DoStat{Span{start, p.prev.End}, body}
		case "for":
			return p.forStat()
		case "repeat":
			p.next()
			// the until condition sees the body's locals: parse the body without closing its block
			bc := p.openBlock(true)
			blk := &Block{}
			bc.block = blk
			blk.Off = p.tok.Off
			for !p.blockFollow(true) {
				if p.isKw("return") {
					blk.Stats = append(blk.Stats, p.retStat())
					break
				}
				blk.Stats = append(blk.Stats, p.statement())
			}
			blk.End = p.prev.End
			if len(blk.Stats) == 0 {
				blk.End = blk.Off
			}
			p.expectKw("until")
			cond := p.expr()
			p.closeBlock()
			return &RepeatStat{Span{start, p.prev.End}, blk, cond}
		case "function":
			p.next()
			fs := &FuncStat{}
			fs.Base = p.name()
			for p.isOp(".") {
				p.next()
				fs.Fields = append(fs.Fields, p.name())
			}
			if p.isOp(":") {
				p.next()
				fs.Method = p.name()
				p.feat["methoddef"]++
			}
			fs.Func = p.funcBody(start, fs.Method)
			fs.Span = Span{start, p.prev.End}
			return fs
		case "local":
			p.next()
			if p.isKw("function") {
				p.next()
				n := p.name()
				f := p.funcBody(start, nil)
				return &LocalFuncStat{Span{start, p.prev.End}, n, f}
			}
			ls := &LocalStat{}
			nclose := 0
			for {
				n := p.name()
				at := ""
				if p.isOp("<") {
					p.next()
					an := p.name()
					p.expectOp(">")
					at = an.Text
					p.feat["attrib"]++
					switch at {
					case "const":
					case "close":
						nclose++
					default:
						p.ctxErr(an.Off, "unknown attribute '%s'", at)
					}
				}
				ls.Names = append(ls.Names, n)
				ls.Attribs = append(ls.Attribs, at)
				if !p.isOp(",") {
					break
				}
				p.next()
			}
			if nclose > 1 {
				p.ctxErr(start, "multiple to-be-closed variables in local list")
			}
			if p.isOp("=") {
				p.next()
				ls.Exps = p.exprList()
			}
			ls.Span = Span{start, p.prev.End}
			return ls
		case "return":
			return p.retStat()
		case "break":
			p.next()
			inLoop := false
			for _, b := range p.fn.blocks {
				if b.loop {
					inLoop = true
				}
			}
			if !inLoop {
				p.ctxErr(start, "break outside a loop")
			}
			return &BreakStat{Span{start, p.prev.End}}
		case "goto":
			p.next()
			n := p.name()
			p.feat["goto"]++
			p.fn.gotos = append(p.fn.gotos, pendingGoto{n, append([]*blockCtx{}, p.fn.blocks...)})
			return &GotoStat{Span{start, p.prev.End}, n}
		}
	}
	// exprstat
	e := p.suffixedExp()
	if p.isOp("=") || p.isOp(",") {
		as := &AssignStat{}
		as.Targets = append(as.Targets, e)
		for p.isOp(",") {
			p.next()
			as.Targets = append(as.Targets, p.suffixedExp())
		}
		for _, t := range as.Targets {
			switch t.(type) {
			case *NameExp, *IndexExp:
			default:
				p.fail(t.ESpan().Off, "syntax error: cannot assign to this expression")
			}
		}
		p.expectOp("=")
		as.Exps = p.exprList()
		as.Span = Span{start, p.prev.End}
		return as
	}
	c, ok := e.(*CallExp)
	if !ok {
		p.fail(p.tok.Off, "syntax error near '%s'", p.tokText())
	}
	return &CallStat{Span{start, p.prev.End}, c}
}

func (p *parser) retStat() Stat {
	start := p.tok.Off
	p.next()
	rs := &ReturnStat{}
	if !p.blockFollow(true) && !p.isOp(";") {
		rs.Exps = p.exprList()
	}
	if p.isOp(";") {
		p.next()
	}
	rs.Span = Span{start, p.prev.End}
	// return must be the last statement of its block
	if !p.blockFollow(true) {
		p.fail(p.tok.Off, "'<eof>' or block end expected near '%s'", p.tokText())
	}
	return rs
}

func (p *parser) ifStat() Stat {
	start := p.tok.Off
	is := &IfStat{}
	p.next()
	is.Conds = append(is.Conds, p.expr())
	p.expectKw("then")
	is.Blocks = append(is.Blocks, p.block(false))
	for {
		if p.isKw("elseif") {
			p.next()
			is.Conds = append(is.Conds, p.expr())
			p.expectKw("then")
			is.Blocks = append(is.Blocks, p.block(false))
			continue
		}
		if p.isKw("else") {
			p.next()
			is.Else = p.block(false)
		}
		break
	}
	p.expectKw("end")
	is.Span = Span{start, p.prev.End}
	return is
}

func (p *parser) forStat() Stat {
	start := p.tok.Off
	p.next()
	n1 := p.name()
	if p.isOp("=") {
		p.next()
		fs := &NumForStat{Var: n1}
		fs.Start = p.expr()
		p.expectOp(",")
		fs.Limit = p.expr()
		if p.isOp(",") {
			p.next()
			fs.Step = p.expr()
		}
		p.expectKw("do")
		fs.Body = p.block(true)
		p.expectKw("end")
		fs.Span = Span{start, p.prev.End}
		return fs
	}
	if !p.isOp(",") && !p.isKw("in") {
		p.fail(p.tok.Off, "'=' or 'in' expected near '%s'", p.tokText())
	}
	gs := &GenForStat{Names: []*Name{n1}}
	for p.isOp(",") {
		p.next()
		gs.Names = append(gs.Names, p.name())
	}
	p.expectKw("in")
	gs.Exps = p.exprList()
	p.expectKw("do")
	gs.Body = p.block(true)
	p.expectKw("end")
	gs.Span = Span{start, p.prev.End}
	return gs
}

func (p *parser) funcBody(start int, method *Name) *FuncExp {
	f := &FuncExp{}
	if method != nil {
		f.Self = &Name{Span{method.Off, method.Off}, "self"}
	}
	p.expectOp("(")
	if !p.isOp(")") {
		for {
			if p.isOp("...") {
				p.next()
				f.IsVararg = true
				break
			}
			f.Params = append(f.Params, p.name())
			if !p.isOp(",") {
				break
			}
			p.next()
		}
	}
	p.expectOp(")")
	saved := p.fn
	p.fn = &funcCtx{vararg: f.IsVararg, parent: saved}
	f.Body = p.block(false)
	p.closeFunc()
	p.fn = saved
	p.expectKw("end")
	f.Span = Span{start, p.prev.End}
	return f
}

func (p *parser) exprList() []Exp {
	es := []Exp{p.expr()}
	for p.isOp(",") {
		p.next()
		es = append(es, p.expr())
	}
	return es
}

func (p *parser) primaryExp() Exp {
	if p.tok.Kind == TName {
		n := p.name()
		return &NameExp{n.Span, n}
	}
	if p.isOp("(") {
		start := p.tok.Off
		p.next()
		e := p.expr()
		p.expectOp(")")
		return &ParenExp{Span{start, p.prev.End}, e}
	}
	p.fail(p.tok.Off, "unexpected symbol near '%s'", p.tokText())
	return nil
}

func (p *parser) suffixedExp() Exp {
	e := p.primaryExp()
	start := e.ESpan().Off
	for {
		switch {
		case p.isOp("."):
			p.next()
			n := p.name()
			e = &IndexExp{Span{start, p.prev.End}, e, &StringExp{n.Span, n.Text, n.Text, false}, n}
		case p.isOp("["):
			p.next()
			k := p.expr()
			p.expectOp("]")
			e = &IndexExp{Span{start, p.prev.End}, e, k, nil}
		case p.isOp(":"):
			p.next()
			n := p.name()
			args, style := p.funcArgs()
			p.feat["methodcall"]++
			e = &CallExp{Span{start, p.prev.End}, e, n, args, style}
		case p.isOp("("), p.isOp("{"), p.tok.Kind == TString:
			args, style := p.funcArgs()
			if style != "paren" {
				p.feat["call-"+style]++
			}
			e = &CallExp{Span{start, p.prev.End}, e, nil, args, style}
		default:
			return e
		}
	}
}

func (p *parser) funcArgs() ([]Exp, string) {
	switch {
	case p.tok.Kind == TString:
		s := &StringExp{Span{p.tok.Off, p.tok.End}, p.tok.Text, p.tok.Value, p.tok.Long}
		p.next()
		return []Exp{s}, "string"
	case p.isOp("{"):
		return []Exp{p.tableCons()}, "table"
	case p.isOp("("):
		p.next()
		var args []Exp
		if !p.isOp(")") {
			args = p.exprList()
		}
		p.expectOp(")")
		return args, "paren"
	}
	p.fail(p.tok.Off, "function arguments expected near '%s'", p.tokText())
	return nil, ""
}

func (p *parser) tableCons() Exp {
	start := p.tok.Off
	p.expectOp("{")
	t := &TableExp{}
	for !p.isOp("}") {
		f := &Field{}
		f.Off = p.tok.Off
		switch {
		case p.tok.Kind == TName && func() bool { la := p.lookahead(); return la.Kind == TOp && la.Text == "=" }():
			f.KeyName = p.name()
			p.expectOp("=")
			f.Value = p.expr()
		case p.isOp("["):
			p.next()
			f.KeyExp = p.expr()
			p.expectOp("]")
			p.expectOp("=")
			f.Value = p.expr()
		default:
			f.Value = p.expr()
		}
		f.End = p.prev.End
		t.Fields = append(t.Fields, f)
		if p.isOp(",") || p.isOp(";") {
			p.next()
			continue
		}
		break
	}
	p.expectOp("}")
	t.Span = Span{start, p.prev.End}
	return t
}

func (p *parser) simpleExp() Exp {
	sp := Span{p.tok.Off, p.tok.End}
	switch p.tok.Kind {
	case TNumber:
		e := &NumberExp{sp, p.tok.Text}
		p.next()
		return e
	case TString:
		e := &StringExp{sp, p.tok.Text, p.tok.Value, p.tok.Long}
		p.next()
		return e
	case TKeyword:
		switch p.tok.Text {
		case "nil":
			p.next()
			return &NilExp{sp}
		case "true":
			p.next()
			return &TrueExp{sp}
		case "false":
			p.next()
			return &FalseExp{sp}
		case "function":
			p.next()
			p.feat["closure"]++
			return p.funcBody(sp.Off, nil)
		}
	case TOp:
		switch p.tok.Text {
		case "...":
			if !p.fn.vararg {
				p.ctxErr(sp.Off, "cannot use '...' outside a vararg function")
			}
			p.next()
			return &VarargExp{sp}
		case "{":
			return p.tableCons()
		}
	}
	return p.suffixedExp()
}

type prio struct{ left, right int }

var binPrio = map[string]prio{
	"+": {10, 10}, "-": {10, 10}, "*": {11, 11}, "%": {11, 11}, "^": {14, 13}, "/": {11, 11}, "//": {11, 11},
	"&": {6, 6}, "|": {4, 4}, "~": {5, 5}, "<<": {7, 7}, ">>": {7, 7}, "..": {9, 8},
	"==": {3, 3}, "<": {3, 3}, "<=": {3, 3}, "~=": {3, 3}, ">": {3, 3}, ">=": {3, 3}, "and": {2, 2}, "or": {1, 1},
}

const unaryPrio = 12

func (p *parser) binOp() (string, bool) {
	if p.tok.Kind == TOp || (p.tok.Kind == TKeyword && (p.tok.Text == "and" || p.tok.Text == "or")) {
		if _, ok := binPrio[p.tok.Text]; ok {
			return p.tok.Text, true
		}
	}
	return "", false
}

func (p *parser) expr() Exp { return p.subExpr(0) }

func (p *parser) subExpr(limit int) Exp {
	var e Exp
	start := p.tok.Off
	if (p.tok.Kind == TKeyword && p.tok.Text == "not") || (p.tok.Kind == TOp && (p.tok.Text == "-" || p.tok.Text == "~" || p.tok.Text == "#")) {
		op := p.tok.Text
		p.next()
		x := p.subExpr(unaryPrio)
		e = &UnExp{Span{start, p.prev.End}, op, x}
		if op == "~" {
			p.feat["bitop"]++
		}
	} else {
		e = p.simpleExp()
	}
	for {
		op, ok := p.binOp()
		if !ok || binPrio[op].left <= limit {
			return e
		}
		p.next()
		switch op {
		case "//":
			p.feat["idiv"]++
		case "&", "|", "~", "<<", ">>":
			p.feat["bitop"]++
		}
		r := p.subExpr(binPrio[op].right)
		e = &BinExp{Span{start, p.prev.End}, op, e, r}
	}
}
