package reflua

// Lexical-scoping binder, implementing the visibility rules of the Lua manual §3.5:
// a local is visible from the statement after its declaration (not in its own initialisers), a
// local function in its own body, parameters (and the implicit self of a method) in the body, the
// control variable of a numeric for only in the loop body (the bounds are evaluated outside), the
// names of a generic for only in the body, and the condition of repeat-until sees the body's locals.

type DeclKind int

const (
	DLocal DeclKind = iota
	DParam
	DLoopVar
	DLocalFunc
	DSelf
)

func (k DeclKind) String() string {
	return [...]string{"local", "param", "loopvar", "localfunc", "self"}[k]
}

type OccKind int

const (
	ODecl OccKind = iota
	ORead
	OWrite // assignment target (plain name on the left of '=')
	OFuncName
)

// Occ is one variable occurrence: a Name that denotes a variable (not a field, method or label).
type Occ struct {
	Name *Name
	Kind OccKind
	Decl *Decl // nil: global
	// Func is the function the occurrence lies in (nil = main chunk)
	Func *FuncExp
	// InInitOfSameName: the occurrence is a read inside the initialiser list of a local statement
	// that declares the same name (e.g. `local x = x * 2`)
	InInitOfSameName bool
	// InForBoundsOfSameName: a read inside the bounds of a numeric for / explist of a generic for
	// that declares the same name
	InForBoundsOfSameName bool
	// InAssignOfSameName: a read inside an assignment statement one of whose targets is the same bare
	// name (c = c + 1), or inside the body of `function N ... end` reading N
	InAssignOfSameName bool
	// Value: for OWrite occurrences the assigned expression when matched positionally (may be nil)
	Value Exp
	// Base: the occurrence is the base of an index/call chain (`x` in x.y, x:m(), x[1], x())
	Base bool
}

type Decl struct {
	Name   *Name
	Kind   DeclKind
	Attrib string
	Func   *FuncExp // function in whose body (or parameter list) the declaration lives; nil = main chunk
	Depth  int      // block nesting depth (0 = top level of the chunk)
	Occs   []*Occ   // all occurrences incl. the declaration, in source order
	Stat   Stat     // declaring statement (nil for params/self of function expressions)
	Init   Exp      // initialiser expression matched positionally (locals only), may be nil
	// ScopeStart/ScopeEnd: byte range in which the declaration is visible
	ScopeStart, ScopeEnd int
	// ValueIsFunc: declared by `local function` or initialised with a function expression
	ValueIsFunc bool
}

func (d *Decl) Reads() int {
	n := 0
	for _, o := range d.Occs {
		if o.Kind == ORead {
			n++
		}
	}
	return n
}

// GlobalDef is a defining occurrence of a global: `Name = ...` or `function Name ...`.
type GlobalDef struct {
	Occ      *Occ
	TopLevel bool // at the top level of the chunk (not inside a function)
	Depth    int
	Value    Exp // assigned value when matched positionally, may be nil
	// EffectiveOff: the offset from which the definition has taken effect in execution order (the end
	// of the assignment statement: its right-hand side is evaluated before the targets are assigned)
	EffectiveOff int
	StatOff      int // start of the defining statement
}

type Binding struct {
	Res         *Result
	Occs        []*Occ // every variable occurrence in source order
	ByName      map[*Name]*Occ
	Decls       []*Decl
	GlobalDefs  map[string][]*GlobalDef
	GlobalReads map[string][]*Occ
	ConstAssign []*Name
	// FieldNames: Names that are fields / methods / labels / table keys (not variables)
	FieldNames map[*Name]bool
	// GFields: the field names of `_G.name` accesses where `_G` is not a local: each designates the
	// global variable `name` (whatever locals of that name are in scope)
	GFields []*Name
	// GFieldWrites: name -> number of `_G.name = v` targets and `function _G.name` definitions
	GFieldWrites map[string]int
}

type scope struct {
	parent *scope
	vars   map[string]*Decl
	fn     *FuncExp
	depth  int
}

func (s *scope) lookup(name string) *Decl {
	for c := s; c != nil; c = c.parent {
		if d, ok := c.vars[name]; ok {
			return d
		}
	}
	return nil
}

type binder struct {
	b *Binding
}

// Bind computes the binding of a parsed chunk (res.Chunk must be non-nil).
func Bind(res *Result) *Binding {
	b := &Binding{Res: res, ByName: map[*Name]*Occ{}, GlobalDefs: map[string][]*GlobalDef{}, GlobalReads: map[string][]*Occ{}, FieldNames: map[*Name]bool{}, GFieldWrites: map[string]int{}}
	bd := &binder{b}
	top := &scope{vars: map[string]*Decl{}}
	bd.blockIn(res.Chunk, top, len(res.Src))
	return b
}

func (bd *binder) occ(n *Name, kind OccKind, s *scope) *Occ {
	o := &Occ{Name: n, Kind: kind, Func: s.fn}
	if kind != ODecl {
		o.Decl = s.lookup(n.Text)
		if o.Decl != nil {
			o.Decl.Occs = append(o.Decl.Occs, o)
			if kind == OWrite && o.Decl.Attrib != "" {
				bd.b.ConstAssign = append(bd.b.ConstAssign, n)
			}
		} else if kind == ORead {
			bd.b.GlobalReads[n.Text] = append(bd.b.GlobalReads[n.Text], o)
		}
	}
	bd.b.Occs = append(bd.b.Occs, o)
	bd.b.ByName[n] = o
	return o
}

func (bd *binder) declare(n *Name, kind DeclKind, s *scope, st Stat, scopeStart, scopeEnd int) *Decl {
	d := &Decl{Name: n, Kind: kind, Func: s.fn, Depth: s.depth, Stat: st, ScopeStart: scopeStart, ScopeEnd: scopeEnd}
	o := bd.occ(n, ODecl, s)
	o.Decl = d
	d.Occs = append(d.Occs, o)
	s.vars[n.Text] = d
	bd.b.Decls = append(bd.b.Decls, d)
	return d
}

// blockIn binds the statements of blk inside scope s (the caller created s for this block).
func (bd *binder) blockIn(blk *Block, s *scope, blockEnd int) {
	for _, st := range blk.Stats {
		bd.stat(st, s, blockEnd)
	}
}

func (bd *binder) newScope(parent *scope) *scope {
	return &scope{parent: parent, vars: map[string]*Decl{}, fn: parent.fn, depth: parent.depth + 1}
}

func (bd *binder) stat(st Stat, s *scope, blockEnd int) {
	switch t := st.(type) {
	case *LocalStat:
		names := map[string]bool{}
		for _, n := range t.Names {
			names[n.Text] = true
		}
		for _, e := range t.Exps {
			bd.expMark(e, s, func(o *Occ) {
				if o.Kind == ORead && names[o.Name.Text] {
					o.InInitOfSameName = true
				}
			})
		}
		for i, n := range t.Names {
			// a redeclaration in the same block shadows the earlier one from here on
			d := bd.declare(n, DLocal, s, st, t.End, blockEnd)
			d.Attrib = t.Attribs[i]
			if i < len(t.Exps) {
				d.Init = t.Exps[i]
				if _, ok := t.Exps[i].(*FuncExp); ok {
					d.ValueIsFunc = true
				}
			}
		}
	case *LocalFuncStat:
		d := bd.declare(t.Name, DLocalFunc, s, st, t.Name.End, blockEnd)
		d.ValueIsFunc = true
		bd.function(t.Func, s)
	case *FuncStat:
		var o *Occ
		if len(t.Fields) == 0 && t.Method == nil {
			o = bd.occ(t.Base, OFuncName, s)
			if o.Decl == nil {
				bd.b.GlobalDefs[t.Base.Text] = append(bd.b.GlobalDefs[t.Base.Text], &GlobalDef{Occ: o, TopLevel: s.fn == nil, Depth: s.depth, Value: t.Func, EffectiveOff: t.Base.End, StatOff: t.Off})
			}
		} else {
			o = bd.occ(t.Base, ORead, s)
			o.Base = true
		}
		for _, f := range t.Fields {
			bd.b.FieldNames[f] = true
		}
		if t.Base.Text == "_G" && o.Decl == nil && len(t.Fields) > 0 {
			bd.b.GFields = append(bd.b.GFields, t.Fields[0])
			if len(t.Fields) == 1 && t.Method == nil {
				bd.b.GFieldWrites[t.Fields[0].Text]++
			}
		}
		if t.Method != nil {
			bd.b.FieldNames[t.Method] = true
		}
		if len(t.Fields) == 0 && t.Method == nil {
			before := len(bd.b.Occs)
			bd.function(t.Func, s)
			for _, o2 := range bd.b.Occs[before:] {
				if o2.Kind == ORead && o2.Name.Text == t.Base.Text {
					o2.InAssignOfSameName = true
				}
			}
		} else {
			bd.function(t.Func, s)
		}
	case *AssignStat:
		// the right-hand sides and the index expressions of the targets are evaluated first; the
		// order does not matter for binding
		tnames := map[string]bool{}
		for _, tg := range t.Targets {
			if ne, ok := tg.(*NameExp); ok {
				tnames[ne.Name.Text] = true
			}
		}
		beforeAssign := len(bd.b.Occs)
		defer func() {
			for _, o2 := range bd.b.Occs[beforeAssign:] {
				if o2.Kind == ORead && tnames[o2.Name.Text] {
					o2.InAssignOfSameName = true
				}
			}
		}()
		for _, e := range t.Exps {
			bd.exp(e, s)
		}
		for i, tg := range t.Targets {
			switch x := tg.(type) {
			case *NameExp:
				o := bd.occ(x.Name, OWrite, s)
				if i < len(t.Exps) {
					o.Value = t.Exps[i]
				}
				if o.Decl == nil {
					var v Exp
					if i < len(t.Exps) {
						v = t.Exps[i]
					}
					bd.b.GlobalDefs[x.Name.Text] = append(bd.b.GlobalDefs[x.Name.Text], &GlobalDef{Occ: o, TopLevel: s.fn == nil, Depth: s.depth, Value: v, EffectiveOff: t.End, StatOff: t.Off})
				}
			default:
				bd.exp(tg, s)
				if ix, ok := tg.(*IndexExp); ok && ix.KeyName != nil {
					if ne, ok := ix.Obj.(*NameExp); ok && ne.Name.Text == "_G" {
						if bo := bd.b.ByName[ne.Name]; bo != nil && bo.Decl == nil {
							bd.b.GFieldWrites[ix.KeyName.Text]++
						}
					}
				}
			}
		}
	case *CallStat:
		bd.exp(t.Call, s)
	case *DoStat:
		bd.blockIn(t.Body, bd.newScope(s), t.End)
	case *WhileStat:
		bd.exp(t.Cond, s)
		bd.blockIn(t.Body, bd.newScope(s), t.End)
	case *RepeatStat:
		inner := bd.newScope(s)
		// the body's locals are visible in the condition
		bd.blockIn(t.Body, inner, t.End)
		bd.exp(t.Cond, inner)
	case *IfStat:
		for i, c := range t.Conds {
			bd.exp(c, s)
			bd.blockIn(t.Blocks[i], bd.newScope(s), t.Blocks[i].End)
		}
		if t.Else != nil {
			bd.blockIn(t.Else, bd.newScope(s), t.Else.End)
		}
	case *NumForStat:
		mark := func(o *Occ) {
			if o.Kind == ORead && o.Name.Text == t.Var.Text {
				o.InForBoundsOfSameName = true
			}
		}
		bd.expMark(t.Start, s, mark)
		bd.expMark(t.Limit, s, mark)
		if t.Step != nil {
			bd.expMark(t.Step, s, mark)
		}
		inner := bd.newScope(s)
		bd.declare(t.Var, DLoopVar, inner, st, t.Body.Off, t.End)
		bd.blockIn(t.Body, inner, t.End)
	case *GenForStat:
		names := map[string]bool{}
		for _, n := range t.Names {
			names[n.Text] = true
		}
		for _, e := range t.Exps {
			bd.expMark(e, s, func(o *Occ) {
				if o.Kind == ORead && names[o.Name.Text] {
					o.InForBoundsOfSameName = true
				}
			})
		}
		inner := bd.newScope(s)
		for _, n := range t.Names {
			bd.declare(n, DLoopVar, inner, st, t.Body.Off, t.End)
		}
		bd.blockIn(t.Body, inner, t.End)
	case *ReturnStat:
		for _, e := range t.Exps {
			bd.exp(e, s)
		}
	case *GotoStat:
		bd.b.FieldNames[t.Label] = true
	case *LabelStat:
		bd.b.FieldNames[t.Label] = true
	case *BreakStat, *SemiStat:
	}
}

func (bd *binder) function(f *FuncExp, s *scope) {
	inner := &scope{parent: s, vars: map[string]*Decl{}, fn: f, depth: s.depth + 1}
	if f.Self != nil {
		bd.declare(f.Self, DSelf, inner, nil, f.Body.Off, f.End)
	}
	for _, p := range f.Params {
		bd.declare(p, DParam, inner, nil, f.Body.Off, f.End)
	}
	bd.blockIn(f.Body, inner, f.End)
}

func (bd *binder) expMark(e Exp, s *scope, mark func(*Occ)) {
	before := len(bd.b.Occs)
	bd.exp(e, s)
	for _, o := range bd.b.Occs[before:] {
		mark(o)
	}
}

func (bd *binder) exp(e Exp, s *scope) {
	switch t := e.(type) {
	case nil:
	case *NameExp:
		bd.occ(t.Name, ORead, s)
	case *IndexExp:
		bd.baseExp(t.Obj, s)
		if t.KeyName != nil {
			bd.b.FieldNames[t.KeyName] = true
			if ne, ok := t.Obj.(*NameExp); ok && ne.Name.Text == "_G" {
				if o := bd.b.ByName[ne.Name]; o != nil && o.Decl == nil {
					bd.b.GFields = append(bd.b.GFields, t.KeyName)
				}
			}
		} else {
			bd.exp(t.Key, s)
		}
	case *CallExp:
		bd.baseExp(t.Fn, s)
		if t.Method != nil {
			bd.b.FieldNames[t.Method] = true
		}
		for _, a := range t.Args {
			bd.exp(a, s)
		}
	case *BinExp:
		bd.exp(t.L, s)
		bd.exp(t.R, s)
	case *UnExp:
		bd.exp(t.X, s)
	case *ParenExp:
		bd.exp(t.X, s)
	case *TableExp:
		for _, f := range t.Fields {
			if f.KeyName != nil {
				bd.b.FieldNames[f.KeyName] = true
			}
			if f.KeyExp != nil {
				bd.exp(f.KeyExp, s)
			}
			bd.exp(f.Value, s)
		}
	case *FuncExp:
		bd.function(t, s)
	}
}

func (bd *binder) baseExp(e Exp, s *scope) {
	if ne, ok := e.(*NameExp); ok {
		o := bd.occ(ne.Name, ORead, s)
		o.Base = true
		return
	}
	bd.exp(e, s)
}

// Analyze parses and binds; an assignment to a const/close variable makes the verdict ContextOnly.
func Analyze(src string) (*Result, *Binding) {
	res := Parse(src)
	if res.Chunk == nil {
		return res, nil
	}
	b := Bind(res)
	if len(b.ConstAssign) > 0 && res.Verdict == Valid {
		res.Verdict = ContextOnly
		res.Context = append(res.Context, SyntaxError{b.ConstAssign[0].Off, "attempt to assign to const variable"})
	}
	return res, b
}
