package reflua

// Span is a byte range of the source.
type Span struct{ Off, End int }

// Name is one identifier occurrence.
type Name struct {
	Span
	Text string
}

type Exp interface{ ESpan() Span }

type (
	NilExp    struct{ Span }
	TrueExp   struct{ Span }
	FalseExp  struct{ Span }
	VarargExp struct{ Span }
	NumberExp struct {
		Span
		Raw string
	}
	StringExp struct {
		Span
		Raw, Value string
		Long       bool
	}
	FuncExp struct {
		Span
		Params   []*Name
		IsVararg bool
		Body     *Block
		Self     *Name // implicit self of `function t:m` (synthetic, zero-width at the method name), else nil
	}
	NameExp struct {
		Span
		Name *Name
	}
	IndexExp struct {
		Span
		Obj     Exp
		Key     Exp   // for a[k]; for a.k a StringExp synthesised from the name
		KeyName *Name // for a.k
	}
	CallExp struct {
		Span
		Fn     Exp
		Method *Name // a:m(...)
		Args   []Exp
		// ArgStyle: "paren", "string", "table"
		ArgStyle string
	}
	BinExp struct {
		Span
		Op   string
		L, R Exp
	}
	UnExp struct {
		Span
		Op string
		X  Exp
	}
	ParenExp struct {
		Span
		X Exp
	}
	TableExp struct {
		Span
		Fields []*Field
	}
)

type Field struct {
	Span
	KeyName *Name // k = v
	KeyExp  Exp   // [k] = v
	Value   Exp
}

func (e *NilExp) ESpan() Span    { return e.Span }
func (e *TrueExp) ESpan() Span   { return e.Span }
func (e *FalseExp) ESpan() Span  { return e.Span }
func (e *VarargExp) ESpan() Span { return e.Span }
func (e *NumberExp) ESpan() Span { return e.Span }
func (e *StringExp) ESpan() Span { return e.Span }
func (e *FuncExp) ESpan() Span   { return e.Span }
func (e *NameExp) ESpan() Span   { return e.Span }
func (e *IndexExp) ESpan() Span  { return e.Span }
func (e *CallExp) ESpan() Span   { return e.Span }
func (e *BinExp) ESpan() Span    { return e.Span }
func (e *UnExp) ESpan() Span     { return e.Span }
func (e *ParenExp) ESpan() Span  { return e.Span }
func (e *TableExp) ESpan() Span  { return e.Span }

type Block struct {
	Span
	Stats []Stat
}

type Stat interface{ SSpan() Span }

type (
	LocalStat struct {
		Span
		Names   []*Name
		Attribs []string // "" when absent
		Exps    []Exp
	}
	AssignStat struct {
		Span
		Targets []Exp
		Exps    []Exp
	}
	CallStat struct {
		Span
		Call *CallExp
	}
	DoStat struct {
		Span
		Body *Block
	}
	WhileStat struct {
		Span
		Cond Exp
		Body *Block
	}
	RepeatStat struct {
		Span
		Body *Block
		Cond Exp
	}
	IfStat struct {
		Span
		Conds  []Exp
		Blocks []*Block
		Else   *Block
	}
	NumForStat struct {
		Span
		Var                *Name
		Start, Limit, Step Exp
		Body               *Block
	}
	GenForStat struct {
		Span
		Names []*Name
		Exps  []Exp
		Body  *Block
	}
	FuncStat struct {
		Span
		Base   *Name   // function Base.F1.F2:Method
		Fields []*Name // F1, F2
		Method *Name
		Func   *FuncExp
	}
	LocalFuncStat struct {
		Span
		Name *Name
		Func *FuncExp
	}
	ReturnStat struct {
		Span
		Exps []Exp
	}
	BreakStat struct{ Span }
	GotoStat  struct {
		Span
		Label *Name
	}
	LabelStat struct {
		Span
		Label *Name
	}
	SemiStat struct{ Span }
)

func (s *LocalStat) SSpan() Span     { return s.Span }
func (s *AssignStat) SSpan() Span    { return s.Span }
func (s *CallStat) SSpan() Span      { return s.Span }
func (s *DoStat) SSpan() Span        { return s.Span }
func (s *WhileStat) SSpan() Span     { return s.Span }
func (s *RepeatStat) SSpan() Span    { return s.Span }
func (s *IfStat) SSpan() Span        { return s.Span }
func (s *NumForStat) SSpan() Span    { return s.Span }
func (s *GenForStat) SSpan() Span    { return s.Span }
func (s *FuncStat) SSpan() Span      { return s.Span }
func (s *LocalFuncStat) SSpan() Span { return s.Span }
func (s *ReturnStat) SSpan() Span    { return s.Span }
func (s *BreakStat) SSpan() Span     { return s.Span }
func (s *GotoStat) SSpan() Span      { return s.Span }
func (s *LabelStat) SSpan() Span     { return s.Span }
func (s *SemiStat) SSpan() Span      { return s.Span }
