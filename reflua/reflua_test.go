package reflua

import (
	"os"
	"path/filepath"
	"strings"
	"testing"
)

func TestAcceptReject(t *testing.T) {
	valid := []string{
		"", ";", "local x = 1", "local x <const>, y <close> = 1, nil", "x = 0x1p-3 + 0xA.8 + 1e400 + .5 + 3. + 12LL + 0x10ULL",
		"goto e do end ::e::", "for i = 1, 10, 2 do break end", "for k, v in pairs(t) do end", "repeat local z = 1 until z",
		"function a.b.c:d(x, ...) return ... end", "local function f() return f end", "f{1,2;3}", "f'str' g\"s\" h[[l]] k[==[ ]] ]==]",
		"a.b[c]:d(e).f = 1, 2", "x = a // b & c | d ~ e << 1 >> 2 .. 's' ^ -2", "x = not -~#a", "return", "return 1;",
		"x = {[1]=2, a=3, 4, f(),}", "x = 'a\\z  \n  b\\x41\\065\\u{48}\\\n'", "--[==[ long\ncomment ]==] x = 1", "#!shebang\nx=1",
		"(f)()", "(a).b = 1", "a = a or b and c == d ~= e", "x = 2^-3", "::l1:: ::l2::", "if a then elseif b then else end",
		"while true do if x then break end end", "x = function(...) local a, b = ... end", "local t = {f = function() end}",
		"a = 1 b = 2", "f() g()", "x = - - 1", "x = 1 --c\n--[[c]] y = 2",
	}
	for _, s := range valid {
		r, _ := Analyze(s)
		if r.Verdict != Valid {
			t.Errorf("expected valid: %q got %v %v %v", s, r.Verdict, r.Err, r.Context)
		}
	}
	invalid := []string{
		"x =", "local", "local 1", "x = = 1", "if x then", "for i = 1 do end", "f(", "x = 1 +", "a, f() = 1, 2", "(a) = 1",
		"f() = 1", "return 1 x = 2", "x = 1e", "x = 0x", "x = 3x", "x = 1..2", "x = 'abc", "x = \"a\nb\"", "x = [[abc", "--[[ abc",
		"x = '\\q'", "x = '\\300'", "x = '\\xZZ'", "x = '\\u{110000000}'", "local x <const", "::a", "goto", "x.1 = 2", "x = }",
		"function f( end", "function() end", "a.b", "a", "1", "x = @", "x = a b c =", "local function a.b() end", "x = {1 2}",
		"end", "until x", "x = not", "for a.b in c do end", "x = 1 ~", "x = [=", "x = 1ULLL", "x = 1.5LL", "local x = 1 = 2",
		"function f(a,) end", "function f(..., a) end", "f(a,)", "x = a.'s'", "x = a:b", "x:y = 1",
	}
	for _, s := range invalid {
		r, _ := Analyze(s)
		if r.Verdict != Invalid {
			t.Errorf("expected invalid: %q got %v", s, r.Verdict)
		}
	}
	ctx := []string{"break", "goto nowhere", "::a:: ::a::", "function f() return ... end", "local x <foo> = 1", "local a <close>, b <close> = 1, 2",
		"local c <const> = 1 c = 2", "do goto l local a ::l:: a = 1 end"}
	for _, s := range ctx {
		r, _ := Analyze(s)
		if r.Verdict != ContextOnly {
			t.Errorf("expected context-only: %q got %v %v", s, r.Verdict, r.Err)
		}
	}
}

func TestRepoTestdataValid(t *testing.T) {
	n := 0
	filepath.Walk("/repo/luahelper-lsp/testdata", func(p string, info os.FileInfo, err error) error {
		if err != nil || info.IsDir() || !strings.HasSuffix(p, ".lua") {
			return nil
		}
		b, _ := os.ReadFile(p)
		r, _ := Analyze(string(b))
		n++
		// four test inputs of the repository are deliberately incomplete code
		known := strings.HasSuffix(p, "complete/test5.lua") || strings.HasSuffix(p, "define/test1.lua") ||
			strings.HasSuffix(p, "parse/test1.lua") || strings.HasSuffix(p, "parse/test2.lua")
		if (r.Verdict == Invalid) != known {
			t.Errorf("%s classified %v: %v", p, r.Verdict, r.Err)
		}
		return nil
	})
	t.Logf("%d files", n)
}

func TestBinderBasics(t *testing.T) {
	src := `local x = 1
local x = x * 2
local function f(a) return f, a, x, g end
for i = i, 10 do print(i) end
repeat local u = 1 until u
g = function() return x end
function t:m() return self end
`
	r, b := Analyze(src)
	if r.Verdict != Valid {
		t.Fatal(r.Err, r.Context)
	}
	get := func(text string, nth int) *Occ {
		k := 0
		for _, o := range b.Occs {
			if o.Name.Text == text {
				if k == nth {
					return o
				}
				k++
			}
		}
		t.Fatalf("no occ %s #%d", text, nth)
		return nil
	}
	x0, x1, xr := get("x", 0), get("x", 2), get("x", 1)
	if xr.Decl != x0.Decl || !xr.InInitOfSameName {
		t.Errorf("x in initialiser must bind to the first x")
	}
	if get("x", 3).Decl != x1.Decl {
		t.Errorf("x in f must bind to the second x")
	}
	if get("f", 1).Decl == nil || get("f", 1).Decl.Kind != DLocalFunc {
		t.Errorf("f recursion")
	}
	if get("i", 0).Decl != nil || !get("i", 0).InForBoundsOfSameName {
		t.Errorf("i in bounds must be global")
	}
	if get("i", 2).Decl == nil {
		t.Errorf("i in body is the loop var")
	}
	if get("u", 1).Decl == nil {
		t.Errorf("until sees body local")
	}
	if get("g", 0).Decl != nil || len(b.GlobalDefs["g"]) != 1 {
		t.Errorf("g global")
	}
	if get("self", 0).Decl == nil || get("self", 1).Decl.Kind != DSelf {
		t.Errorf("self")
	}
}
