package luagen

import (
	"strings"

	"pgregory.net/rapid"

	"verif/reflua"
)

// LayoutCfg controls how tokens are rendered to text.
type LayoutCfg struct {
	Wild     bool     // arbitrary whitespace / comments / line ends between any two tokens
	EOLs     []string // line ends to choose from
	Comments bool
	NonASCII bool // non-ASCII text inside comments
	Astral   bool // astral characters inside comments
	Shebang  bool
	// NoSameLineAfterLong: never continue a line after a long comment (known-finding gate)
	NoSameLineAfterLong bool
}

var asciiWords = []string{"todo", "x = 1", "note:", "end", "[", "]", "a-b", "'", "\"", "if then", "123", "[= note", "[==", "[=]", "[ x", "[=x[", "]]", "]=]"}
var bmpWords = []string{"привет", "мир", "é", "中文", "注释", "ñandú"}
var astralWords = []string{"😀", "𝒳", "🚀ok"}

func commentText(t *rapid.T, lay LayoutCfg) string {
	n := rapid.IntRange(0, 3).Draw(t, "cmtWords")
	var parts []string
	for i := 0; i < n; i++ {
		pool := asciiWords
		k := rapid.IntRange(0, 5).Draw(t, "cmtAlpha")
		if lay.NonASCII && k >= 3 {
			pool = bmpWords
		}
		if lay.Astral && k == 5 {
			pool = astralWords
		}
		parts = append(parts, rapid.SampledFrom(pool).Draw(t, "cmtWord"))
	}
	return strings.Join(parts, " ")
}

// opensLongBracket: s starts with `[`, any number of `=`, `[` — directly after `--` that would open a
// long comment. `[= note` or `[==` do not: such a comment is an ordinary short one.
func opensLongBracket(s string) bool {
	if !strings.HasPrefix(s, "[") {
		return false
	}
	i := 1
	for i < len(s) && s[i] == '=' {
		i++
	}
	return i < len(s) && s[i] == '['
}

// CanGlue reports whether writing a directly followed by b tokenises as exactly a, b.
func CanGlue(a, b string) bool {
	toks, cmts, err := reflua.Tokenize(a + b)
	return err == nil && len(cmts) == 0 && len(toks) == 2 && toks[0].Text == a && toks[1].Text == b
}

func (lay LayoutCfg) eol(t *rapid.T) string {
	if len(lay.EOLs) == 0 {
		return "\n"
	}
	return rapid.SampledFrom(lay.EOLs).Draw(t, "eol")
}

// separator draws the text between two tokens. mustNL: a line break is required (after a short
// comment); the result always keeps the tokens apart when they cannot be glued.
func separator(t *rapid.T, lay LayoutCfg, prev, next string, preferNL bool, indent int) string {
	if !lay.Wild {
		if preferNL {
			return lay.eol(t) + strings.Repeat("  ", max0(indent-1))
		}
		return " "
	}
	var b strings.Builder
	n := rapid.IntRange(0, 3).Draw(t, "sepN")
	if preferNL && n == 0 {
		n = 1
	}
	afterLong := false
	for i := 0; i < n; i++ {
		k := rapid.IntRange(0, 9).Draw(t, "sepKind")
		if !lay.Comments && k >= 7 {
			k = k % 7
		}
		switch k {
		case 0, 1, 2:
			b.WriteString(" ")
		case 3:
			b.WriteString("\t")
		case 4, 5:
			b.WriteString(lay.eol(t))
			afterLong = false
		case 6:
			b.WriteString([]string{"\v", "\f", "  "}[rapid.IntRange(0, 2).Draw(t, "ws")])
		case 7:
			// short comment: runs to the end of the line. Its text must not start like a long bracket.
			txt := commentText(t, lay)
			if opensLongBracket(txt) {
				txt = " " + txt
			}
			b.WriteString("--" + txt + lay.eol(t))
			afterLong = false
		default:
			lv := rapid.IntRange(0, 2).Draw(t, "cmtLevel")
			txt := commentText(t, lay)
			if rapid.IntRange(0, 3).Draw(t, "cmtML") == 0 {
				txt += lay.eol(t) + commentText(t, lay)
			}
			txt = strings.ReplaceAll(txt, "]", ")")
			b.WriteString("--[" + strings.Repeat("=", lv) + "[" + txt + "]" + strings.Repeat("=", lv) + "]")
			afterLong = true
		}
	}
	if afterLong && lay.NoSameLineAfterLong {
		b.WriteString(lay.eol(t))
	}
	s := b.String()
	if s == "" && !CanGlue(prev, next) {
		return " "
	}
	// separators made only of comments glue too: "a--[[x]]b" is fine, but "1--[[x]].5"? the
	// comment separates tokens lexically, so nothing more is needed. One exception: a separator
	// that starts with "--" directly after a token ending in '-' would change that token.
	if strings.HasPrefix(s, "-") && strings.HasSuffix(prev, "-") {
		s = " " + s
	}
	if strings.HasPrefix(s, "--") && strings.HasSuffix(prev, "[") {
		// "[--[[" fine; nothing to do
	}
	return s
}

// Render renders the tokens with the layout; returns the text and the byte offset of each token.
func Render(t *rapid.T, toks []Tok, lay LayoutCfg) (string, []int) {
	var b strings.Builder
	offs := make([]int, len(toks))
	if lay.Shebang && rapid.IntRange(0, 4).Draw(t, "shebang") == 0 {
		b.WriteString("#!/usr/bin/lua" + lay.eol(t))
	}
	for i, tk := range toks {
		if i > 0 {
			b.WriteString(separator(t, lay, toks[i-1].Text, tk.Text, tk.NL, tk.Indent))
		} else if lay.Wild {
			b.WriteString(separator(t, lay, "", tk.Text, false, 0))
		}
		offs[i] = b.Len()
		b.WriteString(tk.Text)
	}
	if lay.Wild {
		b.WriteString(separator(t, lay, "x", "", true, 0))
	} else {
		b.WriteString(lay.eol(t))
	}
	// "\n\r" is one line break for Lua but two lines for an LSP client: never produce it (a don't-care
	// class). Same length, so the token offsets stay valid.
	out := []byte(b.String())
	for i := 0; i+1 < len(out); i++ {
		if out[i] == '\n' && out[i+1] == '\r' && (i+2 >= len(out) || out[i+2] != '\n') {
			out[i+1] = '\n'
		}
	}
	return string(out), offs
}

var mutKeywords = []string{"and", "break", "do", "else", "elseif", "end", "false", "for", "function", "goto", "if", "in", "local",
	"nil", "not", "or", "repeat", "return", "then", "true", "until", "while", "=", "==", "(", ")", "{", "}", "[", "]", ",", ";", ".", ":", "::",
	"..", "...", "+", "-", "#", "<", ">", "x", "1", "\"s\""}

// Mutate applies one single-token mutation (deletion, duplication, swap with the neighbour,
// substitution by a keyword/operator) and returns the new token texts and the mutation kind.
func Mutate(t *rapid.T, toks []Tok) ([]Tok, string) {
	out := append([]Tok{}, toks...)
	if len(out) == 0 {
		return append(out, Tok{Text: "end", Var: VarNone, SelfOf: -1}), "insert"
	}
	i := rapid.IntRange(0, len(out)-1).Draw(t, "mutAt")
	switch rapid.IntRange(0, 3).Draw(t, "mutKind") {
	case 0:
		return append(out[:i], out[i+1:]...), "delete"
	case 1:
		out = append(out[:i+1], out[i:]...)
		return out, "duplicate"
	case 2:
		if i+1 < len(out) {
			out[i], out[i+1] = out[i+1], out[i]
			// keep layout hints in place
			out[i].NL, out[i+1].NL = out[i+1].NL, out[i].NL
			return out, "swap"
		}
		return append(out[:i], out[i+1:]...), "delete"
	default:
		out[i].Text = rapid.SampledFrom(mutKeywords).Draw(t, "mutTo")
		return out, "substitute"
	}
}

// negTemplates are statements that violate the grammar or the lexical rules (space-separated
// tokens). Whether a text containing one is really invalid is always decided by the reference
// recogniser, never assumed.
var NegTemplates = []string{
	"f ( ) = 1", "( a ) = 1", "a , f ( ) = 1 , 2", "a . b ( ) = 1", "a : m ( ) = 1", "f \"s\" = 1", "f { } = 1", "( a ) , b = 1 , 2",
	"f ( ) , a = 1 , 2", "a = 1 ,", "local a , = 1", "x = 1 2", "for i = 1 do end", "for i = 1 , 2 , 3 , 4 do end", "for a . b = 1 , 2 do end",
	"for a , b = 1 , 2 do end", "local function a . b ( ) end", "local function a : b ( ) end", "function a : b . c ( ) end",
	"function ( ) end", "x = function end", "x = { , }", "x = { a = }", "x = { [ 1 ] 2 }", "x = a . 1", "x = a : b", "x = #", "x = 1 + * 2",
	"x = a not b", "goto 1", ":: a", ":: 1 ::", "local x < const", "local x < > = 1", "local 1 = 2", "if a then else else end",
	"if a then elseif end", "while do end", "repeat until", "do end end", "x = ( )", "x = f ( , )", "x = f ( a , )", "x = 'a' 'b'", "x = 1 'b'",
	"a . b", "a", "( a )", "a [ 1 ]", "x = = 1", "x , = 1", "x = 1e", "x = 0x", "x = 1..2", "x = 3x", "x = 0xg", "x = 1e+", "x = 1.2.3",
	"x = 08LLL", "x = 1.5LL", "x = 0x1p", "x = 0x.p1", "x = \"\\q\"", "x = \"\\300\"", "x = \"\\xZ1\"", "x = \"\\u{}\"", "x = \"\\u{80000000}\"",
	"x = \"\\u41\"", "x = 'abc", "x = [=[ abc ]]", "x = [= 1", "x = 1 = 2", "local x = 1 = 2", "a . b . c = ", "x = a . . b", "x = a . . . b",
	"x = ~", "x = not", "x = a and", "x = or b", "x = { } { }", "x = - ", "return 1 , ", "x = function ( a , ) end", "x = function ( ... , a ) end",
	"x = function ( a b ) end", "x = function ( 1 ) end", "local function ( ) end", "local a <const> <close> = 1", "x = a [ ]", "x = a [ 1",
	"x = { 1", "x = ( 1", "x = ( 1 ) )", "x = 1 )", "x = }", "x = ]", "until a", "elseif a then", "then", "in", "end", "else",
	"for in a do end", "for a in do end", "for a in b end", "while a end", "if a end", "if a then elseif b end", "x = $", "x = @ 1", "x = ` `", "x = a ! b", "x = a ? b", "x = a != b", "x = a && b", "x = a || b",
	"x += 1", "x ++", "local x = 1 ;;= 2", "goto", "break = 1", "local local", "local function", "function f", "function f (", "f ( ) ( ) = 2",
}

// CtxTemplates are statements that are grammatical but violate one of Lua's context conditions (or
// use a construct only some dialects know): several to-be-closed variables in one list, unknown
// attributes, assignment to a constant, break outside a loop, goto without a visible label, duplicate
// labels, `...` outside a vararg function, duplicate parameters and names.
var CtxTemplates = []string{
	"local a <close> , b <close> = f ( ) , g ( )", "local a <const> , b <close> , c <close> = 1 , 2 , 3", "local a <close> , b <close> , c <close>",
	"local a , b <close> , c <close> = 1", "local a <close> , a <close> = nil , nil", "local a <foo> = 1", "local a <close>", "local a <const>",
	"local a <const> , b <const> , c <const> = 1", "local a <const> = 1 a = 2", "local a <close> = nil a = 1", "break", "do break end",
	"function ctxf ( ) break end", "goto nowhere", "do goto inner end do ::inner:: end", "::dup:: ::dup::", "::dup:: do ::dup:: end",
	"goto fwd local x = 1 ::fwd:: print ( x )", "function ctxg ( ) return ... end", "function ctxh ( a , a , a ) return a end",
	"local a , a , a = 1 , 2 , 3", "for i , i in pairs ( t ) do end", "for i = i , i , i do i = i end", "local function a ( ) end local function a ( ) end",
	"repeat local u <close> = nil until u", "while true do local w <close> , v <close> = nil , nil break end",
	"return", "return 1 , 2", "do return end local unreachable = 1",
}

// InsertNegative inserts one negative template at a statement boundary.
func InsertNegative(t *rapid.T, toks []Tok, exclude func(tpl string) bool) ([]Tok, string) {
	tpl := rapid.SampledFrom(NegTemplates).Draw(t, "negTpl")
	if exclude != nil && exclude(tpl) {
		tpl = "x = = 1"
	}
	return InsertTemplate(t, toks, tpl)
}

// InsertTemplate inserts the space-separated tokens of tpl at a statement boundary.
func InsertTemplate(t *rapid.T, toks []Tok, tpl string) ([]Tok, string) {
	var bounds []int
	for i, tk := range toks {
		if tk.NL {
			bounds = append(bounds, i)
		}
	}
	bounds = append(bounds, len(toks))
	at := bounds[rapid.IntRange(0, len(bounds)-1).Draw(t, "negAt")]
	var ins []Tok
	for i, w := range strings.Fields(tpl) {
		ins = append(ins, Tok{Text: w, Var: VarNone, NL: i == 0, Indent: 1, SelfOf: -1})
	}
	out := append([]Tok{}, toks[:at]...)
	out = append(out, ins...)
	if at < len(toks) {
		rest := append([]Tok{}, toks[at:]...)
		rest[0].NL = true
		out = append(out, rest...)
	}
	return out, "neg:" + tpl
}
