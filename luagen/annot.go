package luagen

import (
	"fmt"
	"strings"

	"pgregory.net/rapid"
)

// Annotation types per docs/manual/annotate.md (EmmyLua style).
//
//	TYPE  ::= UNION
//	UNION ::= POSTFIX { '|' POSTFIX }
//	POSTFIX ::= PRIMARY { '[]' }
//	PRIMARY ::= NAME | 'table' '<' TYPE ',' TYPE '>' | 'fun' '(' [PARAM {',' PARAM}] ')' [':' TYPE {',' TYPE}] | '(' TYPE ')'
//	PARAM ::= NAME ['?'] ':' TYPE
type AType struct {
	Kind    string   // name | union | array | table | fun | paren
	Name    string   // name
	Elems   []*AType // union members; array: [elem]; table: [key, value]; paren: [inner]
	Params  []AParam // fun
	Returns []*AType // fun
}

type AParam struct {
	Name string
	Opt  bool
	Type *AType
}

var annotBaseTypes = []string{"number", "string", "boolean", "any", "table", "nil", "function", "void"}

// GenAType draws a type expression of nesting depth <= d over the class names.
func GenAType(t *rapid.T, d int, classes []string) *AType {
	k := rapid.IntRange(0, 9).Draw(t, "atype")
	if d <= 0 {
		k = k % 3
	}
	switch k {
	case 0, 1:
		return &AType{Kind: "name", Name: rapid.SampledFrom(annotBaseTypes).Draw(t, "abase")}
	case 2, 3:
		if len(classes) > 0 {
			return &AType{Kind: "name", Name: rapid.SampledFrom(classes).Draw(t, "aclass")}
		}
		return &AType{Kind: "name", Name: "number"}
	case 4, 5:
		n := rapid.IntRange(2, 3).Draw(t, "unionN")
		u := &AType{Kind: "union"}
		for i := 0; i < n; i++ {
			m := GenAType(t, d-1, classes)
			if m.Kind == "union" {
				m = &AType{Kind: "paren", Elems: []*AType{m}}
			}
			if funWithReturns(m) && i < n-1 {
				// the return list of a fun extends as far as possible: parenthesise
				m = &AType{Kind: "paren", Elems: []*AType{m}}
			}
			u.Elems = append(u.Elems, m)
		}
		return u
	case 6:
		e := GenAType(t, d-1, classes)
		if e.Kind == "union" || e.Kind == "fun" {
			e = &AType{Kind: "paren", Elems: []*AType{e}}
		}
		return &AType{Kind: "array", Elems: []*AType{e}}
	case 7:
		k := GenAType(t, d-1, classes)
		if funWithReturns(k) {
			// the return list of a fun extends as far as possible: as a table key it needs parentheses
			k = &AType{Kind: "paren", Elems: []*AType{k}}
		}
		return &AType{Kind: "table", Elems: []*AType{k, GenAType(t, d-1, classes)}}
	case 8:
		f := &AType{Kind: "fun"}
		np := rapid.IntRange(0, 3).Draw(t, "funParams")
		for i := 0; i < np; i++ {
			pt := GenAType(t, d-1, classes)
			if funWithReturns(pt) && i < np-1 {
				pt = &AType{Kind: "paren", Elems: []*AType{pt}}
			}
			f.Params = append(f.Params, AParam{Name: fmt.Sprintf("p%d", i+1), Opt: rapid.IntRange(0, 4).Draw(t, "opt") == 0, Type: pt})
		}
		nr := rapid.IntRange(0, 2).Draw(t, "funReturns")
		for i := 0; i < nr; i++ {
			r := GenAType(t, d-1, classes)
			if funWithReturns(r) && i < nr-1 {
				r = &AType{Kind: "paren", Elems: []*AType{r}}
			}
			f.Returns = append(f.Returns, r)
		}
		return f
	default:
		return &AType{Kind: "paren", Elems: []*AType{GenAType(t, d-1, classes)}}
	}
}

// funWithReturns: a fun type with a return list, or a union ending in one (its return list would
// swallow a following comma).
func funWithReturns(a *AType) bool {
	switch a.Kind {
	case "fun":
		if len(a.Returns) == 0 {
			return false
		}
		return true
	case "union":
		return funWithReturns(a.Elems[len(a.Elems)-1])
	case "array", "name", "table", "paren":
		return false
	}
	return false
}

// String prints the type in the documented syntax.
func (a *AType) String() string {
	switch a.Kind {
	case "name":
		return a.Name
	case "union":
		var ps []string
		for _, e := range a.Elems {
			ps = append(ps, e.String())
		}
		return strings.Join(ps, " | ")
	case "array":
		return a.Elems[0].String() + "[]"
	case "table":
		return "table<" + a.Elems[0].String() + ", " + a.Elems[1].String() + ">"
	case "paren":
		return "(" + a.Elems[0].String() + ")"
	case "fun":
		var ps []string
		for _, p := range a.Params {
			o := ""
			if p.Opt {
				o = "?"
			}
			ps = append(ps, p.Name+o+": "+p.Type.String())
		}
		s := "fun(" + strings.Join(ps, ", ") + ")"
		if len(a.Returns) > 0 {
			var rs []string
			for _, r := range a.Returns {
				rs = append(rs, r.String())
			}
			s += ": " + strings.Join(rs, ", ")
		}
		return s
	}
	return "?"
}

// Norm returns the canonical S-expression of the type: parentheses dropped, singleton unions
// flattened, nested unions merged.
func (a *AType) Norm() string {
	switch a.Kind {
	case "name":
		return a.Name
	case "paren":
		return a.Elems[0].Norm()
	case "union":
		var ps []string
		for _, e := range a.flatUnion() {
			ps = append(ps, e.Norm())
		}
		if len(ps) == 1 {
			return ps[0]
		}
		return "(| " + strings.Join(ps, " ") + ")"
	case "array":
		return "([] " + a.Elems[0].Norm() + ")"
	case "table":
		return "(table " + a.Elems[0].Norm() + " " + a.Elems[1].Norm() + ")"
	case "fun":
		var ps []string
		for _, p := range a.Params {
			o := ""
			if p.Opt {
				o = "?"
			}
			ps = append(ps, p.Name+o+":"+p.Type.Norm())
		}
		var rs []string
		for _, r := range a.Returns {
			rs = append(rs, r.Norm())
		}
		return "(fun (" + strings.Join(ps, " ") + ") (" + strings.Join(rs, " ") + "))"
	}
	return "?"
}

func (a *AType) flatUnion() []*AType {
	switch a.Kind {
	case "paren":
		return a.Elems[0].flatUnion()
	case "union":
		var out []*AType
		for _, e := range a.Elems {
			out = append(out, e.flatUnion()...)
		}
		return out
	}
	return []*AType{a}
}

// Depth is the nesting depth of the type.
func (a *AType) Depth() int {
	d := 0
	for _, e := range a.Elems {
		if x := e.Depth(); x > d {
			d = x
		}
	}
	for _, p := range a.Params {
		if x := p.Type.Depth(); x > d {
			d = x
		}
	}
	for _, r := range a.Returns {
		if x := r.Depth(); x > d {
			d = x
		}
	}
	if a.Kind == "name" {
		return 0
	}
	return d + 1
}

// Has reports whether the type contains a node of kind `outer` that contains a node of kind `inner`.
func (a *AType) Has(outer, inner string) bool {
	var contains func(x *AType, kind string) bool
	contains = func(x *AType, kind string) bool {
		if x.Kind == kind {
			return true
		}
		for _, e := range x.Elems {
			if contains(e, kind) {
				return true
			}
		}
		for _, p := range x.Params {
			if contains(p.Type, kind) {
				return true
			}
		}
		for _, r := range x.Returns {
			if contains(r, kind) {
				return true
			}
		}
		return false
	}
	var walk func(x *AType) bool
	walk = func(x *AType) bool {
		if x.Kind == outer {
			for _, e := range x.Elems {
				if contains(e, inner) {
					return true
				}
			}
			for _, p := range x.Params {
				if contains(p.Type, inner) {
					return true
				}
			}
			for _, r := range x.Returns {
				if contains(r, inner) {
					return true
				}
			}
		}
		for _, e := range x.Elems {
			if walk(e) {
				return true
			}
		}
		for _, p := range x.Params {
			if walk(p.Type) {
				return true
			}
		}
		for _, r := range x.Returns {
			if walk(r) {
				return true
			}
		}
		return false
	}
	return walk(a)
}

// AnnotLine is one generated annotation line (without the leading "---").
type AnnotLine struct {
	Kind  string   // type | class | field | param | return | alias | generic | overload | vararg | enum
	Text  string   // e.g. "@type number | string @comment"
	Types []*AType // the types in the line, in order
	Name  string   // class / field / param / alias name
}

var annotComments = []string{"", "", " @note", " @说明 文字", " @a comment with | and [] inside"}

// GenAnnotLine draws one annotation line of the given kind ("" = any kind).
func GenAnnotLine(t *rapid.T, kind string, depth int, classes []string) AnnotLine {
	return GenAnnotLineN(t, kind, depth, classes, -1)
}

// GenAnnotLineN is GenAnnotLine with a unique number for the names a line declares (class, alias).
func GenAnnotLineN(t *rapid.T, kind string, depth int, classes []string, uniq int) AnnotLine {
	kinds := []string{"type", "class", "field", "param", "return", "alias", "generic", "overload", "vararg"}
	if kind == "" {
		kind = rapid.SampledFrom(kinds).Draw(t, "akind")
	}
	cm := rapid.SampledFrom(annotComments).Draw(t, "acomment")
	l := AnnotLine{Kind: kind}
	switch kind {
	case "type", "return":
		n := rapid.IntRange(1, 3).Draw(t, "ntypes")
		var ps []string
		for i := 0; i < n; i++ {
			ty := GenAType(t, depth, classes)
			if funWithReturns(ty) && i < n-1 {
				ty = &AType{Kind: "paren", Elems: []*AType{ty}}
			}
			l.Types = append(l.Types, ty)
			ps = append(ps, ty.String())
		}
		l.Text = "@" + kind + " " + strings.Join(ps, ", ") + cm
	case "class":
		l.Name = fmt.Sprintf("Cls%d", rapid.IntRange(1, 99).Draw(t, "clsNo"))
		if uniq >= 0 {
			l.Name = fmt.Sprintf("NewCls%d", uniq)
		}
		np := rapid.IntRange(0, 3).Draw(t, "nparents")
		s := "@class " + l.Name
		for i := 0; i < np && len(classes) > 0; i++ {
			if i == 0 {
				s += " : "
			} else {
				s += ", "
			}
			s += rapid.SampledFrom(classes).Draw(t, "parent")
		}
		l.Text = s + cm
	case "field":
		l.Name = fmt.Sprintf("fld%d", rapid.IntRange(1, 9).Draw(t, "fldNo"))
		vis := rapid.SampledFrom([]string{"", "public ", "protected ", "private "}).Draw(t, "vis")
		ty := GenAType(t, depth, classes)
		l.Types = []*AType{ty}
		l.Text = "@field " + vis + l.Name + " " + ty.String() + cm
	case "param":
		l.Name = fmt.Sprintf("p%d", rapid.IntRange(1, 3).Draw(t, "paramNo"))
		opt := ""
		if rapid.IntRange(0, 4).Draw(t, "popt") == 0 {
			opt = "?"
		}
		ty := GenAType(t, depth, classes)
		l.Types = []*AType{ty}
		l.Text = "@param " + l.Name + opt + " " + ty.String() + cm
	case "alias":
		l.Name = fmt.Sprintf("Alias%d", rapid.IntRange(1, 9).Draw(t, "aliasNo"))
		if uniq >= 0 {
			l.Name = fmt.Sprintf("NewAlias%d", uniq)
		}
		ty := GenAType(t, depth, classes)
		l.Types = []*AType{ty}
		l.Text = "@alias " + l.Name + " " + ty.String() + cm
	case "generic":
		n := rapid.IntRange(1, 3).Draw(t, "ngeneric")
		var ps []string
		for i := 0; i < n; i++ {
			g := fmt.Sprintf("T%d", i+1)
			if len(classes) > 0 && rapid.Bool().Draw(t, "gbound") {
				g += " : " + rapid.SampledFrom(classes).Draw(t, "gparent")
			}
			ps = append(ps, g)
		}
		l.Text = "@generic " + strings.Join(ps, ", ") + cm
	case "overload":
		f := GenAType(t, depth, classes)
		for f.Kind != "fun" {
			f = &AType{Kind: "fun", Params: []AParam{{Name: "a", Type: f}}}
		}
		l.Types = []*AType{f}
		l.Text = "@overload " + f.String() + cm
	case "vararg":
		ty := GenAType(t, depth, classes)
		l.Types = []*AType{ty}
		l.Text = "@vararg " + ty.String() + cm
	case "enum":
		l.Text = "@enum " + rapid.SampledFrom([]string{"start", "end"}).Draw(t, "enumse") + cm
	}
	return l
}

// HostileAnnotations are annotation fragments aimed at the resolver and parser corner cases.
var HostileAnnotations = []string{
	"---@class A : B\n---@class B : A\n---@type A\nlocal ca = {}\nca.x = 1\nprint(ca.",
	"---@class A : A\n---@field f A\n---@type A\nlocal v\nprint(v.f.f.f)\n",
	"---@alias X Y\n---@alias Y X\n---@type X\nlocal ax\nprint(ax.k)\n",
	"---@alias X X[]\n---@type X\nlocal ay\nprint(ay[1].k)\n",
	"---@alias T table<string, T>\n---@type T\nlocal az\nprint(az.a.b)\n",
	"---@enum start\nE1 = (x)\nE2 = (x)\n---@enum end\n",
	"---@enum start\nlocal M = {}\nM.A = ((M))\n---@enum end\n",
	"---@generic T : T\n---@param a T\n---@return T\nlocal function g(a) return a end\nlocal r = g(g)\nprint(r.x)\n",
	"---@overload fun(\n---@overload fun(a:):\n---@overload\nlocal function o() end\n",
	"---| 'a'\n---| 'b'\n---|\n",
	"---@alias Mode\n---| 'r'\n---| 'w' @write\n---@param m Mode\nlocal function open(m) end\nopen('",
	"---@type fun(a: fun(b: fun(c: fun(): fun())))\nlocal deep\n",
	"---@type table<table<table<string, number[]>, (string|number)[]>, fun(): table<a,b>>[][][]\nlocal tt\nprint(tt[1][1][1].x)\n",
	"---@field orphan number\n---@type\n---@class\n---@alias\n---@param\n---@return\n---@generic\n",
	"---@class C1 : C2, C3, C4\n---@class C2 : C3\n---@class C3 : C1\n---@type C1\nlocal c1\nc1.a = 1\nfunction c1:m() return self.a end\n",
	"---@type C9[]\nlocal arr = {}\nfor i, v in ipairs(arr) do print(v.x) end\n---@class C9 : C9[]\n",
	"---@class \xff\xfe\n---@type \x80\nlocal bad\n",
	"---@type string|\n---@type |string\n---@type string[\n---@type table<string\n---@type fun(\n---@type (string\nlocal q\n",
	"---@return fun(): fun(): fun(): T1, T2\n---@vararg\nfunction vf(...) end\n",
	"---@param self A\n---@class A\nlocal A = {}\nfunction A:new() local o = setmetatable({}, {__index = self}) return o end\nlocal a = A:new():new():new()\nprint(a.",
}
