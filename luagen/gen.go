// Package luagen holds grammar-directed generators on top of rapid: Lua programs that are valid by
// construction (with the binding the generator intends for every variable occurrence), layouts,
// token mutators, workspaces. All randomness comes from rapid draws.
package luagen

import (
	"fmt"
	"strings"

	"pgregory.net/rapid"
)

const (
	VarNone   = -2 // token is not a variable occurrence
	VarGlobal = -1 // variable occurrence bound to a global
)

// Tok is one token of a generated program.
type Tok struct {
	Text string
	// Var: VarNone, VarGlobal, or the index of the declaring token (for the declaring token itself:
	// its own index).
	Var    int
	NL     bool // layout hint: start a new line before this token
	Indent int
	// Write: the occurrence is an assignment target
	Write bool
	// SelfOf: for reads of `self` bound to the implicit parameter: index of the method name token
	SelfOf int
}

type Naming int

const (
	NamesTiny   Naming = iota // a..e: forces shadowing, redeclaration, sibling-scope reuse
	NamesUnique               // every declaration gets a fresh name
	NamesMixed
)

type Config struct {
	Naming        Naming
	MaxStats      int  // statement budget for the file
	MaxDepth      int  // block nesting
	ExpDepth      int  // expression nesting
	Goto          bool // continue-style goto/labels
	Attribs       bool // <const>/<close>
	Methods       bool // function t:m / t.f definitions, method calls
	Self          bool // reads of self inside methods
	Varargs       bool
	RichLits      bool     // all numeral and string forms (else plain decimal integers and simple strings)
	Bitops        bool     // // and bitwise operators
	Globals       []string // global names this file may read/assign (shared across a workspace)
	Builtins      []string // names always defined (print, pairs, ...)
	Prefix        string   // prefix for unique names
	NoGlobalWrite bool
	StringCalls   bool // f"str", f{...}
	// Patterns: plant instances and near misses of the pattern-based checks (duplicate keys, identical
	// operands, `or true`, repeated conditions, self-assignment, float equality, duplicate parameters)
	Patterns bool
	// NoFuncInForBounds: no function expression inside the bounds of a numeric for / explist of a generic for
	NoFuncInForBounds bool
	// NoFuncInTargetIndex: no function expression inside the index expression of an assignment target
	NoFuncInTargetIndex bool
	// NoSameNameInit: never read a name inside the initialiser of a local statement (or for bounds)
	// that declares the same name
	NoSameNameInit bool
	// SameNameForOK: the bounds of a numeric for / explist of a generic for may read the loop
	// variables' names even under NoSameNameInit
	SameNameForOK bool
	// SameNameAssignOK: the right-hand side of an assignment (and the body of `function N`) may read
	// the assigned names even under NoSameNameInit
	SameNameAssignOK bool
	// SameNameBareInit: under NoSameNameInit a single-name local may still be initialised with the
	// bare same name (`local v = v`, the earlier v)
	SameNameBareInit bool
	// GQualified: some accesses to variables are written `_G.name` (always the global of that name,
	// whatever local is visible); the name token is then a field (Var == VarNone)
	GQualified bool
	// LibNames: some locals are spelled like standard-library names (type, next, file, table, string)
	LibNames bool
	// DupParams: parameter lists of up to four names with `_` placeholders, repeated names and (in colon
	// methods) an explicit `self` (implied by Patterns)
	DupParams bool
	// AritySlack: assignments may have fewer or more values than targets
	AritySlack bool
	// BlockReturn: any block (not only function bodies) may end in `return [explist] [;]`
	BlockReturn bool
}

func DefaultConfig() Config {
	return Config{Naming: NamesTiny, MaxStats: 14, MaxDepth: 3, ExpDepth: 2, Methods: true, Varargs: true,
		Globals: []string{"G1", "G2", "gfun"}, Builtins: []string{"print", "pairs", "ipairs", "tostring", "type"}}
}

type declInfo struct {
	tok    int
	attrib string
	selfOf int
}

type scope struct {
	vars   map[string]declInfo
	isFunc bool
}

type Gen struct {
	t       *rapid.T
	cfg     Config
	Toks    []Tok
	scopes  []scope
	budget  int
	vararg  []bool // per function
	loops   []int  // per function: loop nesting depth
	counter int
	indent  int
	nl      bool
	labelNo int
	// suppressBreak: the next block must not end in `break` (a label follows it)
	suppressBreak bool
	noFunc        int
	// banned names for reads (while generating an initialiser of a same-named local)
	banned map[string]bool
}

var tinyPool = []string{"a", "b", "c", "d", "e"}

// Program generates one file.
func Program(t *rapid.T, cfg Config) []Tok {
	g := &Gen{t: t, cfg: cfg, budget: cfg.MaxStats, banned: map[string]bool{}}
	g.scopes = []scope{{vars: map[string]declInfo{}}}
	g.vararg = []bool{true}
	g.loops = []int{0}
	g.block(0, false)
	return g.Toks
}

func (g *Gen) intn(n int, label string) int {
	if n <= 1 {
		return 0
	}
	return rapid.IntRange(0, n-1).Draw(g.t, label)
}

func (g *Gen) emit(text string) int {
	g.Toks = append(g.Toks, Tok{Text: text, Var: VarNone, NL: g.nl, Indent: g.indent, SelfOf: -1})
	g.nl = false
	return len(g.Toks) - 1
}

func (g *Gen) newline() { g.nl = true }

func (g *Gen) lookup(name string) (declInfo, bool) {
	for i := len(g.scopes) - 1; i >= 0; i-- {
		if d, ok := g.scopes[i].vars[name]; ok {
			return d, true
		}
	}
	return declInfo{}, false
}

func (g *Gen) visibleNames() []string {
	seen := map[string]bool{}
	var out []string
	for i := len(g.scopes) - 1; i >= 0; i-- {
		// deterministic order: collect and sort by decl token
		var names []string
		for n := range g.scopes[i].vars {
			names = append(names, n)
		}
		sortStrings(names)
		for _, n := range names {
			if !seen[n] {
				seen[n] = true
				out = append(out, n)
			}
		}
	}
	sortStrings(out)
	return out
}

func sortStrings(a []string) {
	for i := 1; i < len(a); i++ {
		for j := i; j > 0 && a[j] < a[j-1]; j-- {
			a[j], a[j-1] = a[j-1], a[j]
		}
	}
}

func (g *Gen) push(isFunc bool) {
	g.scopes = append(g.scopes, scope{vars: map[string]declInfo{}, isFunc: isFunc})
}
func (g *Gen) pop() { g.scopes = g.scopes[:len(g.scopes)-1] }

var libNamePool = []string{"type", "next", "file", "table", "string"}

func (g *Gen) freshName() string {
	if g.cfg.LibNames && g.intn(10, "libName") == 0 {
		return libNamePool[g.intn(len(libNamePool), "libNameIdx")]
	}
	switch g.cfg.Naming {
	case NamesTiny:
		return tinyPool[g.intn(len(tinyPool), "name")]
	case NamesMixed:
		if g.intn(2, "nameKind") == 0 {
			return tinyPool[g.intn(len(tinyPool), "name")]
		}
	}
	g.counter++
	return fmt.Sprintf("%sv%d", g.cfg.Prefix, g.counter)
}

// emitDecl emits a declaring identifier (not yet visible); returns token index.
func (g *Gen) emitDecl(name string) int {
	i := g.emit(name)
	g.Toks[i].Var = i
	return i
}

func (g *Gen) register(name string, tok int, attrib string) {
	g.scopes[len(g.scopes)-1].vars[name] = declInfo{tok: tok, attrib: attrib, selfOf: -1}
}

// emitVarRead emits a read of `name` with the binding the scoping rules give it here.
func (g *Gen) emitVar(name string, write bool) int {
	if g.cfg.GQualified && name != "self" && g.intn(6, "gQualified") == 0 {
		isBuiltin := false
		for _, b := range g.cfg.Builtins {
			if b == name {
				isBuiltin = true
			}
		}
		if _, shadowed := g.lookup("_G"); !shadowed && !isBuiltin {
			j := g.emit("_G")
			g.Toks[j].Var = VarGlobal
			g.emit(".")
			return g.emit(name)
		}
	}
	i := g.emit(name)
	if d, ok := g.lookup(name); ok {
		g.Toks[i].Var = d.tok
		g.Toks[i].SelfOf = d.selfOf
	} else {
		g.Toks[i].Var = VarGlobal
	}
	g.Toks[i].Write = write
	return i
}

// pickReadable picks a name to read: a visible local, a workspace global or a builtin.
func (g *Gen) pickReadable(label string) string {
	for tries := 0; tries < 8; tries++ {
		vis := g.visibleNames()
		k := g.intn(10, label+"Src")
		var name string
		switch {
		case k < 6 && len(vis) > 0:
			name = vis[g.intn(len(vis), label+"Loc")]
		case k < 8 && len(g.cfg.Globals) > 0:
			name = g.cfg.Globals[g.intn(len(g.cfg.Globals), label+"Glob")]
		case len(g.cfg.Builtins) > 0:
			name = g.cfg.Builtins[g.intn(len(g.cfg.Builtins), label+"Blt")]
		default:
			continue
		}
		if g.banned[name] {
			continue
		}
		if name == "self" && !g.cfg.Self {
			continue
		}
		return name
	}
	if len(g.cfg.Builtins) > 0 {
		return g.cfg.Builtins[0]
	}
	return "print"
}

func (g *Gen) inLoop() bool { return g.loops[len(g.loops)-1] > 0 }

// block emits a statement list. The caller has pushed the scope.
func (g *Gen) block(depth int, allowReturn bool) {
	g.indent++
	noBreak := g.suppressBreak
	g.suppressBreak = false
	n := 1 + g.intn(4, "blockLen")
	if depth == 0 {
		n = 2 + g.intn(g.cfg.MaxStats, "topLen")
	}
	for i := 0; i < n && g.budget > 0; i++ {
		g.budget--
		g.newline()
		g.statement(depth)
		if g.cfg.StringCalls && g.intn(10, "semi") == 0 {
			g.emit(";")
		}
	}
	if (allowReturn && g.intn(3, "ret") == 0) || (!allowReturn && g.cfg.BlockReturn && !noBreak && g.intn(6, "bret") == 0) {
		g.newline()
		g.emit("return")
		k := g.intn(3, "retN")
		for j := 0; j < k; j++ {
			if j > 0 {
				g.emit(",")
			}
			g.exp(1)
		}
		if g.cfg.BlockReturn && g.intn(5, "retSemi") == 0 {
			g.emit(";")
		}
	} else if g.inLoop() && depth > 0 && !noBreak && g.intn(8, "brk") == 0 {
		g.newline()
		g.emit("break")
	}
	g.indent--
}

func (g *Gen) statement(depth int) {
	max := 13
	k := g.intn(max, "stat")
	if depth >= g.cfg.MaxDepth && k >= 4 && k <= 10 {
		k = g.intn(4, "statFlat")
	}
	switch k {
	case 0, 1:
		g.localStat()
	case 2:
		g.assignStat()
	case 3:
		g.callStat()
	case 4:
		g.emit("if")
		condFrom := len(g.Toks)
		g.exp(g.cfg.ExpDepth)
		condTo := len(g.Toks)
		g.emit("then")
		g.push(false)
		g.block(depth+1, false)
		g.pop()
		for g.intn(3, "elseif") == 0 {
			g.newline()
			g.emit("elseif")
			dc := 9
			if g.cfg.Patterns {
				dc = g.intn(4, "dupCond")
			}
			if dc == 0 {
				g.dupToks(condFrom, condTo)
			} else if dc == 1 && g.dupToksNear(condFrom, condTo) {
				// near miss of the first condition
			} else {
				g.exp(g.cfg.ExpDepth)
			}
			g.emit("then")
			g.push(false)
			g.block(depth+1, false)
			g.pop()
		}
		if g.intn(2, "else") == 0 {
			g.newline()
			g.emit("else")
			g.push(false)
			g.block(depth+1, false)
			g.pop()
		}
		g.newline()
		g.emit("end")
	case 5:
		g.emit("while")
		g.exp(g.cfg.ExpDepth)
		g.emit("do")
		g.loopBody(depth, nil)
		g.newline()
		g.emit("end")
	case 6:
		g.emit("repeat")
		g.push(false)
		g.loops[len(g.loops)-1]++
		g.block(depth+1, false)
		g.loops[len(g.loops)-1]--
		g.newline()
		g.emit("until")
		g.exp(g.cfg.ExpDepth) // sees the body's locals
		g.pop()
	case 7:
		// numeric for
		name := g.freshName()
		g.emit("for")
		di := g.emitDecl(name)
		g.emit("=")
		if g.cfg.NoSameNameInit && !g.cfg.SameNameForOK {
			g.banned[name] = true
		}
		if g.cfg.NoFuncInForBounds {
			g.noFunc++
		}
		g.exp(1)
		g.emit(",")
		g.exp(1)
		if g.intn(3, "step") == 0 {
			g.emit(",")
			g.exp(1)
		}
		if g.cfg.NoFuncInForBounds {
			g.noFunc--
		}
		delete(g.banned, name)
		g.emit("do")
		g.loopBody(depth, func() { g.register(name, di, "") })
		g.newline()
		g.emit("end")
	case 8:
		// generic for
		n := 1 + g.intn(2, "forNames")
		names := make([]string, n)
		idx := make([]int, n)
		g.emit("for")
		for i := 0; i < n; i++ {
			if i > 0 {
				g.emit(",")
			}
			for {
				names[i] = g.freshName()
				if i == 0 || names[i] != names[0] {
					break
				}
			}
			idx[i] = g.emitDecl(names[i])
		}
		g.emit("in")
		if g.cfg.NoSameNameInit && !g.cfg.SameNameForOK {
			for _, nm := range names {
				g.banned[nm] = true
			}
		}
		g.emit("pairs")
		g.Toks[len(g.Toks)-1].Var = g.bindOf("pairs")
		g.emit("(")
		if g.cfg.NoFuncInForBounds {
			g.noFunc++
		}
		g.exp(1)
		if g.cfg.NoFuncInForBounds {
			g.noFunc--
		}
		g.emit(")")
		for _, nm := range names {
			delete(g.banned, nm)
		}
		g.emit("do")
		g.loopBody(depth, func() {
			for i := range names {
				g.register(names[i], idx[i], "")
			}
		})
		g.newline()
		g.emit("end")
	case 9:
		g.emit("do")
		g.push(false)
		g.block(depth+1, false)
		g.pop()
		g.newline()
		g.emit("end")
	case 10:
		g.funcStat(depth)
	case 11:
		// local function
		name := g.freshName()
		g.emit("local")
		g.emit("function")
		di := g.emitDecl(name)
		g.register(name, di, "")
		g.funcBody(depth, -1)
	default:
		g.callStat()
	}
}

// dupToks re-emits a copy of the tokens [from, to) (same scope, so the bindings are the same).
func (g *Gen) dupToks(from, to int) {
	shift := len(g.Toks) - from
	for k := from; k < to; k++ {
		tk := g.Toks[k]
		tk.NL = false
		tk.Write = false
		// declarations inside the copied range (parameters of a function expression) are copied too
		if tk.Var >= from && tk.Var < to {
			tk.Var += shift
		}
		if tk.SelfOf >= from && tk.SelfOf < to {
			tk.SelfOf += shift
		}
		g.Toks = append(g.Toks, tk)
	}
}

var nearOps = map[string]string{"==": "~=", "~=": "==", "<": "<=", "<=": "<", ">": ">=", ">=": ">", "and": "or", "or": "and"}

// dupToksNear copies the token range like dupToks but changes exactly one leaf of the copy (a field or
// method name, a comparison / logical operator, a decimal literal), so that the copy is a near miss of
// the original: the same shape, one token different. Reports false (nothing emitted) when the range
// has no such leaf.
func (g *Gen) dupToksNear(from, to int) bool {
	var cands []int
	for k := from; k < to; k++ {
		tk := g.Toks[k]
		switch {
		case k > from && tk.Var == VarNone && (g.Toks[k-1].Text == "." || g.Toks[k-1].Text == ":") && isPlainName(tk.Text):
			cands = append(cands, k)
		case nearOps[tk.Text] != "":
			cands = append(cands, k)
		case isDecimal(tk.Text):
			cands = append(cands, k)
		}
	}
	if len(cands) == 0 {
		return false
	}
	pick := cands[g.intn(len(cands), "nearLeaf")]
	start := len(g.Toks)
	g.dupToks(from, to)
	tk := &g.Toks[start+pick-from]
	switch {
	case nearOps[tk.Text] != "":
		tk.Text = nearOps[tk.Text]
	case isDecimal(tk.Text):
		// a different value (never a second spelling of the same number: 0 -> 10, not 07)
		if tk.Text[0] == '0' {
			tk.Text = "1" + tk.Text
		} else {
			tk.Text = tk.Text + "7"
		}
	default:
		for _, f := range fieldPool {
			if f != tk.Text {
				tk.Text = f
				break
			}
		}
	}
	return true
}

func isDecimal(s string) bool {
	if s == "" || len(s) > 6 {
		return false
	}
	for i := 0; i < len(s); i++ {
		if s[i] < '0' || s[i] > '9' {
			return false
		}
	}
	return true
}

func isPlainName(s string) bool {
	for _, f := range fieldPool {
		if f == s {
			return true
		}
	}
	return false
}

func (g *Gen) bindOf(name string) int {
	if d, ok := g.lookup(name); ok {
		return d.tok
	}
	return VarGlobal
}

func (g *Gen) loopBody(depth int, reg func()) {
	g.push(false)
	if reg != nil {
		reg()
	}
	g.loops[len(g.loops)-1]++
	useGoto := g.cfg.Goto && g.intn(4, "goto") == 0
	label := ""
	if useGoto {
		g.labelNo++
		label = fmt.Sprintf("cont%d", g.labelNo)
		g.indent++
		g.newline()
		g.emit("if")
		g.exp(1)
		g.emit("then")
		g.emit("goto")
		g.emit(label)
		g.emit("end")
		g.indent--
	}
	g.suppressBreak = useGoto
	g.block(depth+1, false)
	if useGoto {
		// a label at the end of the block is visible from anywhere in the block
		g.indent++
		g.newline()
		g.emit("::")
		g.emit(label)
		g.emit("::")
		g.indent--
	}
	g.loops[len(g.loops)-1]--
	g.pop()
}

func (g *Gen) localStat() {
	n := 1
	if g.intn(4, "localMulti") == 0 {
		n = 2 + g.intn(2, "localN")
	}
	names := make([]string, n)
	idx := make([]int, n)
	attribs := make([]string, n)
	g.emit("local")
	usedClose := false
	for i := 0; i < n; i++ {
		if i > 0 {
			g.emit(",")
		}
		for {
			names[i] = g.freshName()
			dup := false
			for j := 0; j < i; j++ {
				if names[j] == names[i] {
					dup = true
				}
			}
			if !dup {
				break
			}
		}
		idx[i] = g.emitDecl(names[i])
		if g.cfg.Attribs && g.intn(6, "attrib") == 0 {
			at := "const"
			if !usedClose && g.intn(3, "close") == 0 {
				at = "close"
				usedClose = true
			}
			attribs[i] = at
			g.emit("<")
			g.emit(at)
			g.emit(">")
		}
	}
	ne := g.intn(n+1, "localExps")
	if usedClose && ne == 0 {
		ne = 1
	}
	if ne > 0 && n == 1 && g.cfg.NoSameNameInit && g.cfg.SameNameBareInit && attribs[0] == "" && g.intn(6, "bareSameName") == 0 {
		// `local v = v`: the initialiser is the bare earlier variable (or global) of the same name
		g.emit("=")
		g.emitVar(names[0], false)
		ne = -1
	}
	if ne > 0 {
		g.emit("=")
		if g.cfg.NoSameNameInit {
			for _, nm := range names {
				g.banned[nm] = true
			}
		}
		for i := 0; i < ne; i++ {
			if i > 0 {
				g.emit(",")
			}
			g.exp(g.cfg.ExpDepth)
		}
		for _, nm := range names {
			delete(g.banned, nm)
		}
	}
	for i := 0; i < n; i++ {
		g.register(names[i], idx[i], attribs[i])
	}
}

// assignable returns visible locals that may be assigned (not const/close), plus globals.
func (g *Gen) assignTarget() {
	k := g.intn(10, "tgt")
	vis := g.visibleNames()
	var cands []string
	for _, n := range vis {
		if d, _ := g.lookup(n); d.attrib == "" && n != "self" {
			cands = append(cands, n)
		}
	}
	switch {
	case k < 5 && len(cands) > 0:
		g.emitVar(cands[g.intn(len(cands), "tgtLoc")], true)
	case k < 7 && len(g.cfg.Globals) > 0 && !g.cfg.NoGlobalWrite:
		name := g.cfg.Globals[g.intn(len(g.cfg.Globals), "tgtGlob")]
		if d, ok := g.lookup(name); ok && d.attrib != "" {
			g.emitVar(g.pickReadable("tgtBase"), false)
			g.emit(".")
			g.emit("fld")
			return
		}
		g.emitVar(name, true)
	default:
		// field target
		g.emitVar(g.pickReadable("tgtBase"), false)
		if g.intn(2, "tgtIdx") == 0 {
			g.emit(".")
			g.emit(fieldPool[g.intn(len(fieldPool), "fld")])
		} else {
			g.emit("[")
			if g.cfg.NoFuncInTargetIndex {
				g.noFunc++
			}
			g.exp(1)
			if g.cfg.NoFuncInTargetIndex {
				g.noFunc--
			}
			g.emit("]")
		}
	}
}

var fieldPool = []string{"x", "y", "fld", "name", "m1"}

func (g *Gen) assignStat() {
	n := 1
	if g.intn(5, "asgMulti") == 0 {
		n = 2
	}
	var tnames []string
	statStart := len(g.Toks)
	for i := 0; i < n; i++ {
		if i > 0 {
			g.emit(",")
		}
		before := len(g.Toks)
		g.assignTarget()
		if g.cfg.NoSameNameInit && !g.cfg.SameNameAssignOK && len(g.Toks) == before+1 && g.Toks[before].Write {
			tnames = append(tnames, g.Toks[before].Text)
		}
	}
	g.emit("=")
	for _, nm := range tnames {
		g.banned[nm] = true
	}
	if g.cfg.Patterns && !g.cfg.NoSameNameInit && g.intn(12, "selfAssign") == 0 {
		// self-assignment: repeat the target list as the value list
		eq := len(g.Toks) - 1
		g.dupToks(statStart, eq)
		for _, nm := range tnames {
			delete(g.banned, nm)
		}
		return
	}
	if g.cfg.Patterns && !g.cfg.NoSameNameInit && g.intn(12, "selfAssignNear") == 0 {
		// near miss of a self-assignment: the target list repeated with one leaf changed
		if g.dupToksNear(statStart, len(g.Toks)-1) {
			for _, nm := range tnames {
				delete(g.banned, nm)
			}
			return
		}
	}
	nv := n
	if g.cfg.AritySlack && !g.cfg.Patterns && g.intn(5, "aritySlack") == 0 {
		nv = n + 1
		if n > 1 && g.intn(3, "aritySlackLess") > 0 {
			nv = n - 1
		}
	}
	if g.cfg.Patterns && g.intn(4, "arity") == 0 {
		nv = n + 1
		if n > 1 && g.intn(2, "arityLess") == 0 {
			nv = n - 1
		}
	}
	for i := 0; i < nv; i++ {
		if i > 0 {
			g.emit(",")
		}
		if g.cfg.Patterns && g.intn(2, "plainValue") == 0 {
			g.operand(0)
		} else {
			g.exp(g.cfg.ExpDepth)
		}
	}
	for _, nm := range tnames {
		delete(g.banned, nm)
	}
}

func (g *Gen) callStat() {
	name := g.pickReadable("callee")
	g.emitVar(name, false)
	if g.cfg.Methods && g.intn(4, "mcall") == 0 {
		g.emit(":")
		g.emit(fieldPool[g.intn(len(fieldPool), "meth")])
	} else if g.intn(4, "fcall") == 0 {
		g.emit(".")
		g.emit(fieldPool[g.intn(len(fieldPool), "fld")])
	}
	g.args()
}

func (g *Gen) args() {
	if g.cfg.StringCalls {
		switch g.intn(6, "argStyle") {
		case 0:
			g.stringLit()
			return
		case 1:
			g.table(1)
			return
		}
	}
	g.emit("(")
	n := g.intn(3, "nargs")
	for i := 0; i < n; i++ {
		if i > 0 {
			g.emit(",")
		}
		g.exp(1)
	}
	g.emit(")")
}

func (g *Gen) funcStat(depth int) {
	g.emit("function")
	kind := g.intn(4, "fkind")
	if !g.cfg.Methods && kind > 0 {
		kind = 0
	}
	switch kind {
	case 0:
		// global (or local, if a local of that name is visible) function
		var name string
		if len(g.cfg.Globals) > 0 && !g.cfg.NoGlobalWrite {
			name = g.cfg.Globals[g.intn(len(g.cfg.Globals), "fname")]
		} else {
			vis := g.visibleNames()
			if len(vis) == 0 {
				name = "gfun"
			} else {
				name = vis[g.intn(len(vis), "fnameLoc")]
			}
		}
		if d, ok := g.lookup(name); ok && (d.attrib != "" || name == "self") {
			name = "gfun"
			if d2, ok2 := g.lookup(name); ok2 && d2.attrib != "" {
				// extremely unlikely; fall back to a field
				g.emitVar(name, false)
				g.emit(".")
				g.emit("fld")
				g.funcBody(depth, -1)
				return
			}
		}
		g.emitVar(name, true)
		if g.cfg.NoSameNameInit && !g.cfg.SameNameAssignOK {
			g.banned[name] = true
		}
		g.funcBody(depth, -1)
		delete(g.banned, name)
	case 1, 2:
		g.emitVar(g.pickReadable("fbase"), false)
		g.emit(".")
		g.emit(fieldPool[g.intn(len(fieldPool), "ffld")])
		g.funcBody(depth, -1)
	default:
		g.emitVar(g.pickReadable("mbase"), false)
		g.emit(":")
		mi := g.emit(fieldPool[g.intn(len(fieldPool), "mname")])
		g.funcBody(depth, mi)
	}
}

// funcBody emits "(params) block end". methodTok >= 0: the body has an implicit self.
func (g *Gen) funcBody(depth int, methodTok int) {
	g.emit("(")
	g.push(true)
	if methodTok >= 0 {
		g.scopes[len(g.scopes)-1].vars["self"] = declInfo{tok: methodTok, selfOf: methodTok}
	}
	np := g.intn(3, "nparams")
	wildParams := g.cfg.Patterns || g.cfg.DupParams
	if wildParams {
		np = g.intn(5, "nparamsWide")
	}
	var pnames []string
	for i := 0; i < np; i++ {
		var nm string
		for {
			nm = g.freshName()
			dup := false
			for _, p := range pnames {
				if p == nm {
					dup = true
				}
			}
			if !dup {
				break
			}
		}
		if wildParams {
			switch k := g.intn(10, "paramKind"); {
			case k < 2:
				nm = "_"
			case k < 4:
				// repeat an earlier real name (any position, so `_` may sit in between)
				var real []string
				for _, p := range pnames {
					if p != "_" {
						real = append(real, p)
					}
				}
				if len(real) > 0 {
					nm = real[g.intn(len(real), "dupOf")]
				}
			case k == 4 && methodTok >= 0 && i == 0:
				nm = "self"
			}
		}
		pnames = append(pnames, nm)
		if i > 0 {
			g.emit(",")
		}
		di := g.emitDecl(nm)
		g.register(nm, di, "")
	}
	va := g.cfg.Varargs && g.intn(4, "vararg") == 0
	if va {
		if np > 0 {
			g.emit(",")
		}
		g.emit("...")
	}
	g.emit(")")
	g.vararg = append(g.vararg, va)
	g.loops = append(g.loops, 0)
	if depth+1 > g.cfg.MaxDepth {
		// keep it shallow: a single return
		g.indent++
		g.newline()
		g.emit("return")
		g.exp(1)
		g.indent--
	} else {
		g.block(depth+1, true)
	}
	g.loops = g.loops[:len(g.loops)-1]
	g.vararg = g.vararg[:len(g.vararg)-1]
	g.pop()
	g.newline()
	g.emit("end")
}

var binops = []string{"+", "-", "*", "/", "%", "^", "..", "==", "~=", "<", "<=", ">", ">=", "and", "or"}
var bitops = []string{"//", "&", "|", "~", "<<", ">>"}

func (g *Gen) numberLit() {
	if !g.cfg.RichLits {
		g.emit(fmt.Sprintf("%d", g.intn(100, "int")))
		return
	}
	forms := []string{"0", "7", "42", "3.5", ".5", "3.", "1e10", "1E-3", "2.5e+4", "0x1F", "0XaB", "0x.8", "0xA.8p1", "0x1p-3", "0x10P+2",
		"1e400", "1e-400", "9007199254740993", "12LL", "34ULL", "0x1Fll", "7uLL", "00012", "1e0", "0e0", "0x0"}
	if g.intn(3, "numGrammar") > 0 {
		g.emit(forms[g.intn(len(forms), "num")])
		return
	}
	// a numeral drawn from the grammar: decimal  D [. D] [e [+-] D] | . D [e..]; hexadecimal
	// 0x H [. H] [p [+-] D] (the hex digits e / E are not exponent markers); optional LL / ULL suffix on
	// integers
	digits := func(set string, min, max int, label string) string {
		n := min + g.intn(max-min+1, label+"N")
		b := make([]byte, n)
		for i := range b {
			b[i] = set[g.intn(len(set), label)]
		}
		return string(b)
	}
	var b strings.Builder
	isInt := true
	if g.intn(2, "numHex") == 0 {
		b.WriteString([]string{"0x", "0X"}[g.intn(2, "numHexPre")])
		h := digits("0123456789abcdefABCDEF", 1, 4, "hexDigit")
		if g.intn(3, "hexEndsInE") == 0 {
			h += []string{"e", "E"}[g.intn(2, "hexE")]
		}
		b.WriteString(h)
		if g.intn(4, "hexFrac") == 0 {
			isInt = false
			b.WriteString(".")
			b.WriteString(digits("0123456789abcdefABCDEF", 0, 3, "hexFracDigit"))
			if g.intn(2, "hexFracE") == 0 {
				b.WriteString("e")
			}
		}
		if g.intn(4, "hexExp") == 0 {
			isInt = false
			b.WriteString([]string{"p", "P"}[g.intn(2, "hexP")])
			b.WriteString([]string{"", "+", "-"}[g.intn(3, "hexSign")])
			b.WriteString(digits("0123456789", 1, 2, "hexExpDigit"))
		}
	} else {
		b.WriteString(digits("0123456789", 1, 4, "decDigit"))
		if g.intn(3, "decFrac") == 0 {
			isInt = false
			b.WriteString(".")
			b.WriteString(digits("0123456789", 0, 3, "decFracDigit"))
		}
		if g.intn(3, "decExp") == 0 {
			isInt = false
			b.WriteString([]string{"e", "E"}[g.intn(2, "decE")])
			b.WriteString([]string{"", "+", "-"}[g.intn(3, "decSign")])
			b.WriteString(digits("0123456789", 1, 3, "decExpDigit"))
		}
	}
	if isInt && g.intn(5, "numSuffix") == 0 {
		b.WriteString([]string{"LL", "ULL", "ll", "uLL", "Ull"}[g.intn(5, "numSuffixForm")])
	}
	g.emit(b.String())
}

func (g *Gen) stringLit() {
	if !g.cfg.RichLits {
		g.emit(`"s` + fmt.Sprint(g.intn(5, "str")) + `"`)
		return
	}
	forms := []string{`""`, `''`, `"abc"`, `'x y'`, `"a\nb"`, `'it\'s'`, `"q\"q"`, `"\x41\065\z
   z"`, `"tab\there"`, `"\u{48}\u{20AC}"`, `"back\\slash"`, `[[long]]`, `[==[a]]b]==]`, "[[\nfirst\nsecond]]", `[=[x]=]`,
		`"é"`, `"ж"`, `"中文"`, `"😀"`, `'\
'`, `"\0\00\000"`, `"--not a comment"`, `'[['`}
	g.emit(forms[g.intn(len(forms), "strForm")])
}

func (g *Gen) table(d int) {
	g.emit("{")
	n := g.intn(4, "tblN")
	for i := 0; i < n; i++ {
		switch g.intn(3, "fldKind") {
		case 0:
			key := fieldPool[i%len(fieldPool)] + fmt.Sprint(i)
			if g.cfg.Patterns && i > 0 && g.intn(3, "dupKey") == 0 {
				key = fieldPool[0] + "0"
			}
			g.emit(key)
			g.emit("=")
			g.exp(d)
		case 1:
			g.emit("[")
			if g.cfg.Patterns && g.intn(2, "litKey") == 0 {
				g.emit([]string{"1", "2", "\"x0\"", "\"1\"", "\"X0\""}[g.intn(5, "litKeyVal")])
			} else {
				g.exp(d)
			}
			g.emit("]")
			g.emit("=")
			g.exp(d)
		default:
			g.exp(d)
		}
		if i < n-1 || g.intn(3, "trailSep") == 0 {
			if g.intn(5, "semi") == 0 {
				g.emit(";")
			} else {
				g.emit(",")
			}
		}
	}
	g.emit("}")
}

// exp emits an expression of nesting depth <= d.
func (g *Gen) exp(d int) {
	k := g.intn(14, "exp")
	if d <= 0 && k >= 7 {
		k = g.intn(7, "expLeaf")
	}
	if g.noFunc > 0 && k == 12 {
		k = 1
	}
	switch k {
	case 0:
		g.emit([]string{"nil", "true", "false"}[g.intn(3, "const")])
	case 1:
		g.numberLit()
	case 2:
		g.stringLit()
	case 3, 4, 5:
		g.emitVar(g.pickReadable("rd"), false)
	case 6:
		if g.vararg[len(g.vararg)-1] && g.cfg.Varargs {
			g.emit("...")
		} else {
			g.numberLit()
		}
	case 7, 8:
		ops := binops
		if g.cfg.Bitops && g.intn(3, "bit") == 0 {
			ops = bitops
		}
		op := ops[g.intn(len(ops), "binop")]
		// parenthesise operands so that the intended tree is independent of precedence
		// (Patterns: one time in four the expression is a link of an unparenthesised chain of the same
		// operator, `x op L op R` or `L op R op x`: which operands meet is decided by associativity)
		chain := 0
		if g.cfg.Patterns && g.intn(4, "opChain") == 0 {
			chain = 1 + g.intn(2, "chainSide")
		}
		if chain == 1 {
			g.operand(0)
			g.emit(op)
		}
		from := len(g.Toks)
		g.operand(d - 1)
		to := len(g.Toks)
		g.emit(op)
		pk := 9
		if g.cfg.Patterns {
			pk = g.intn(8, "binPattern")
		}
		switch pk {
		case 0, 1:
			g.dupToks(from, to) // identical operands
		case 5:
			if !g.dupToksNear(from, to) { // near miss of the left operand
				g.operand(d - 1)
			}
		case 2, 4:
			g.emit([]string{"true", "false"}[g.intn(2, "boolConst")])
		case 3:
			g.emit([]string{"1.5", "0.1", "2.0", "1", "10"}[g.intn(5, "numConst")])
		default:
			g.operand(d - 1)
		}
		if chain == 2 {
			g.emit(op)
			g.operand(0)
		}
	case 9:
		uops := []string{"not", "-", "#"}
		if g.cfg.Bitops {
			uops = append(uops, "~")
		}
		op := uops[g.intn(len(uops), "unop")]
		g.emit(op)
		g.operand(d - 1)
	case 10:
		// index / call chain
		g.emitVar(g.pickReadable("base"), false)
		switch g.intn(4, "suffix") {
		case 0:
			g.emit(".")
			g.emit(fieldPool[g.intn(len(fieldPool), "fld")])
		case 1:
			g.emit("[")
			g.exp(d - 1)
			g.emit("]")
		case 2:
			g.args()
		default:
			if g.cfg.Methods {
				g.emit(":")
				g.emit(fieldPool[g.intn(len(fieldPool), "meth")])
			}
			g.args()
		}
	case 11:
		g.table(d - 1)
	case 12:
		g.emit("function")
		g.funcBody(g.cfg.MaxDepth, -1)
	default:
		g.emit("(")
		g.exp(d - 1)
		g.emit(")")
	}
}

// operand emits a sub-expression, parenthesised unless it is atomic.
func (g *Gen) operand(d int) {
	if d <= 0 || g.intn(2, "atom") == 0 {
		switch g.intn(3, "atomKind") {
		case 0:
			g.numberLit()
		case 1:
			g.emitVar(g.pickReadable("opnd"), false)
		default:
			g.stringLit()
		}
		return
	}
	g.emit("(")
	g.exp(d)
	g.emit(")")
}

// ---------------------------------------------------------------------------------------------
// rendering

// RenderSimple renders tokens one statement per line, single spaces, LF.
func RenderSimple(toks []Tok) (string, []int) {
	var b strings.Builder
	offs := make([]int, len(toks))
	for i, t := range toks {
		if i > 0 {
			if t.NL {
				b.WriteString("\n")
				b.WriteString(strings.Repeat("  ", max0(t.Indent-1)))
			} else {
				b.WriteString(" ")
			}
		}
		offs[i] = b.Len()
		b.WriteString(t.Text)
	}
	b.WriteString("\n")
	return b.String(), offs
}

func max0(x int) int {
	if x < 0 {
		return 0
	}
	return x
}
