package luagen

import (
	"testing"

	"pgregory.net/rapid"

	"verif/reflua"
)

func genCfg(t *rapid.T) Config {
	cfg := DefaultConfig()
	cfg.Naming = Naming(rapid.IntRange(0, 2).Draw(t, "naming"))
	cfg.Goto = rapid.Bool().Draw(t, "goto")
	cfg.Attribs = rapid.Bool().Draw(t, "attribs")
	cfg.Self = rapid.Bool().Draw(t, "self")
	cfg.RichLits = rapid.Bool().Draw(t, "rich")
	cfg.Bitops = rapid.Bool().Draw(t, "bitops")
	cfg.StringCalls = rapid.Bool().Draw(t, "strcalls")
	cfg.BlockReturn = rapid.Bool().Draw(t, "blockret")
	cfg.AritySlack = rapid.Bool().Draw(t, "arityslack")
	cfg.DupParams = rapid.Bool().Draw(t, "dupparams")
	cfg.LibNames = rapid.Bool().Draw(t, "libnames")
	cfg.Patterns = rapid.Bool().Draw(t, "patterns")
	return cfg
}

// The generator and the reference front end are independent computations of the same facts:
// every generated program must be valid for reflua, and every binding the generator intended must
// be the binding reflua's binder computes.
func TestGeneratorAgreesWithReference(t *testing.T) {
	rapid.Check(t, func(t *rapid.T) {
		cfg := genCfg(t)
		toks := Program(t, cfg)
		lay := LayoutCfg{Wild: rapid.Bool().Draw(t, "wild"), EOLs: []string{"\n", "\r\n", "\r"}, Comments: true, NonASCII: true, Astral: true, Shebang: true}
		src, offs := Render(t, toks, lay)
		res, b := reflua.Analyze(src)
		if res.Verdict != reflua.Valid {
			t.Fatalf("generated program not valid (%v %v %v):\n%s", res.Verdict, res.Err, res.Context, src)
		}
		byOff := map[int]*reflua.Occ{}
		for _, o := range b.Occs {
			if o.Decl != nil && o.Decl.Kind == reflua.DSelf && o.Kind == reflua.ODecl {
				continue // synthetic
			}
			byOff[o.Name.Off] = o
		}
		nvar := 0
		for i, tk := range toks {
			o := byOff[offs[i]]
			if tk.Var == VarNone {
				if o != nil {
					t.Fatalf("token %d %q is a variable occurrence for the reference, not for the generator:\n%s", i, tk.Text, src)
				}
				continue
			}
			nvar++
			if o == nil {
				t.Fatalf("token %d %q at %d: generator says variable, reference has no occurrence:\n%s", i, tk.Text, offs[i], src)
			}
			switch {
			case tk.Var == VarGlobal:
				if o.Decl != nil {
					t.Fatalf("token %d %q: generator global, reference bound to decl at %d:\n%s", i, tk.Text, o.Decl.Name.Off, src)
				}
			case tk.SelfOf >= 0:
				if o.Decl == nil || o.Decl.Kind != reflua.DSelf || o.Decl.Name.Off != offs[tk.SelfOf] {
					t.Fatalf("token %d self: reference disagrees:\n%s", i, src)
				}
			default:
				if o.Decl == nil || o.Decl.Name.Off != offs[tk.Var] {
					t.Fatalf("token %d %q at %d: generator decl at %d, reference %+v:\n%s", i, tk.Text, offs[i], offs[tk.Var], o.Decl, src)
				}
				if tk.Write != (o.Kind == reflua.OWrite || o.Kind == reflua.OFuncName) && o.Kind != reflua.ODecl {
					t.Fatalf("token %d %q: write flag mismatch:\n%s", i, tk.Text, src)
				}
			}
		}
		if nvar != len(byOff) {
			t.Fatalf("variable occurrence count: generator %d reference %d\n%s", nvar, len(byOff), src)
		}
	})
}
