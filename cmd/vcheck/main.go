// vcheck is the driver registered in MANIFEST.json:
//
//	vcheck <Cxx> --tier quick|thorough      decide one property
//	vcheck <Cxx> --replay <file>            re-decide one saved case
//	vcheck build                            (re)build executor and property binaries
//
// Exit status: 0 property held on everything explored; 1 violation (a line
// "VIOLATION property=<id> replay=<path>" is printed); 2 inconclusive (build failure, timeout,
// worker death that cannot be attributed to a generated case) — never a verdict.
package main

import (
	"bytes"
	"encoding/json"
	"fmt"
	"os"
	"os/exec"
	"path/filepath"
	"sort"
	"strconv"
	"strings"
	"sync"
	"time"
)

const verifDir = "/verif"

type tierCfg struct {
	Shards   int
	Checks   int // rapid checks per shard
	FuzzSecs int // native fuzzing budget (thorough only)
}

type propCfg struct {
	Race        bool   // needs the -race executor
	Rule        string // generator + non-triviality rule, in words
	Assumptions []string
	FuzzTarget  string // name of a native fuzz target in ./fuzz (thorough tier)
}

var props = map[string]propCfg{}

func goEnv() []string {
	env := os.Environ()
	env = append(env, "GOFLAGS=-mod=mod", "GOPROXY=off", "GOSUMDB=off", "GOTOOLCHAIN=local")
	return env
}

func run(dir string, env []string, name string, args ...string) (string, error) {
	cmd := exec.Command(name, args...)
	cmd.Dir = dir
	cmd.Env = env
	var b bytes.Buffer
	cmd.Stdout = &b
	cmd.Stderr = &b
	err := cmd.Run()
	return b.String(), err
}

func build(race bool) error {
	os.MkdirAll(filepath.Join(verifDir, "bin"), 0o755)
	// go.sum of the module under test may have changed
	if b, err := os.ReadFile("/repo/luahelper-lsp/go.sum"); err == nil {
		cur, _ := os.ReadFile(filepath.Join(verifDir, "go.sum"))
		if !bytes.Contains(cur, bytes.TrimSpace(b)) {
			f, _ := os.OpenFile(filepath.Join(verifDir, "go.sum"), os.O_APPEND|os.O_WRONLY|os.O_CREATE, 0o644)
			f.Write(b)
			f.Close()
		}
	}
	if out, err := run(verifDir, goEnv(), "go", "build", "-tags", "verif", "-o", "bin/lhexec", "./exec/lhexec"); err != nil {
		return fmt.Errorf("building lhexec from /repo failed: %v\n%s", err, out)
	}
	if race {
		if out, err := run(verifDir, goEnv(), "go", "build", "-race", "-tags", "verif", "-o", "bin/lhexec-race", "./exec/lhexec"); err != nil {
			return fmt.Errorf("building lhexec-race failed: %v\n%s", err, out)
		}
	}
	if out, err := run(verifDir, goEnv(), "go", "test", "-c", "-o", "bin/props.test", "./props"); err != nil {
		return fmt.Errorf("building props.test failed: %v\n%s", err, out)
	}
	return nil
}

type knownFinding struct {
	Property, ID, Status, What, Trigger, Gate, Witness, Commit, Line string
}

func loadKnown() []knownFinding {
	var kf struct{ Findings []knownFinding }
	b, err := os.ReadFile(filepath.Join(verifDir, "known_findings.json"))
	if err == nil {
		json.Unmarshal(b, &kf)
	}
	return kf.Findings
}

// replay runs one saved case; returns 0 ok, 1 violation, 2 inconclusive.
func replay(path string, race bool) (int, string) {
	if strings.HasSuffix(path, ".fuzz") {
		return replayFuzz(path)
	}
	env := goEnv()
	if race {
		env = append(env, "LHEXEC="+filepath.Join(verifDir, "bin/lhexec-race"))
	}
	out, err := run(verifDir, env, filepath.Join(verifDir, "bin/props.test"), "-test.run", "^TestReplay$", "-replay", path, "-test.timeout", "10m")
	switch {
	case strings.Contains(out, "REPLAY-OK"):
		return 0, out
	case strings.Contains(out, "REPLAY-VIOLATION"):
		return 1, out
	}
	_ = err
	return 2, out
}

type shardStats struct {
	Property     string            `json:"property"`
	Evaluations  int               `json:"evaluations"`
	NTHashes     []uint64          `json:"nt_hashes"`
	Classes      map[string]int    `json:"classes"`
	Samples      []json.RawMessage `json:"samples"`
	Queries      int               `json:"queries"`
	DontCare     int               `json:"dont_care"`
	Excluded     int               `json:"excluded_by_known_finding"`
	Unconfirmed  int               `json:"unconfirmed"`
	Spawned      int               `json:"children_spawned"`
	Inconclusive []string          `json:"inconclusive"`
}

func mix(seed int64, i int) uint64 {
	x := uint64(seed)*0x9E3779B97F4A7C15 + uint64(i+1)*0xBF58476D1CE4E5B9
	x ^= x >> 31
	x *= 0x94D049BB133111EB
	x ^= x >> 29
	x &= 0x7fffffffffffffff
	if x == 0 {
		x = 1
	}
	return x
}

func main() {
	if len(os.Args) < 2 {
		fmt.Fprintln(os.Stderr, "usage: vcheck <Cxx>|build [--tier quick|thorough] [--replay file]")
		os.Exit(2)
	}
	id := os.Args[1]
	tier := os.Getenv("VERIF_TIER")
	replayPath := ""
	for i := 2; i < len(os.Args); i++ {
		switch os.Args[i] {
		case "--tier":
			i++
			tier = os.Args[i]
		case "--replay":
			i++
			replayPath = os.Args[i]
		}
	}
	if tier == "" {
		tier = "quick"
	}
	if id == "build" {
		if err := build(true); err != nil {
			fmt.Println("INCONCLUSIVE build:", err)
			os.Exit(2)
		}
		fmt.Println("build ok")
		return
	}
	cfg, ok := props[id]
	if !ok {
		fmt.Fprintln(os.Stderr, "unknown property", id)
		os.Exit(2)
	}
	start := time.Now()
	if err := build(cfg.Race); err != nil {
		fmt.Println("INCONCLUSIVE property=" + id + " " + err.Error())
		os.Exit(2)
	}

	if replayPath != "" {
		code, out := replay(replayPath, cfg.Race)
		fmt.Print(out)
		if code == 1 {
			fmt.Printf("VIOLATION property=%s replay=%s\n", id, replayPath)
		}
		os.Exit(code)
	}

	seed := int64(1)
	if v := os.Getenv("VERIF_SEED"); v != "" {
		if n, err := strconv.ParseInt(v, 10, 64); err == nil {
			seed = n
		}
	}
	tc := tierOf(id, tier == "thorough")

	violations := []string{}
	inconclusive := []string{}
	knownSeen := []string{}

	// 1. replay tier: witnesses of known findings and regression inputs of fixed ones
	for _, kf := range loadKnown() {
		if kf.Property != id || kf.Witness == "" {
			continue
		}
		w := filepath.Join(verifDir, kf.Witness)
		code, out := replay(w, cfg.Race)
		switch {
		case kf.Status == "known" && code == 1:
			fmt.Printf("KNOWN-FINDING: property=%s %s %s\n", id, kf.ID, kf.What)
			knownSeen = append(knownSeen, kf.ID)
		case kf.Status == "known" && code == 0:
			fmt.Printf("note: witness of %s no longer fails\n", kf.ID)
		case kf.Status == "fixed" && code == 1:
			fmt.Print(out)
			violations = append(violations, w)
		case code == 2:
			inconclusive = append(inconclusive, "replay "+kf.Witness+": "+lastLines(out, 5))
		}
	}

	// 2. generated search, sharded
	tmp, err := os.MkdirTemp("", "vcheck-"+id+"-")
	if err != nil {
		fmt.Println("INCONCLUSIVE property=" + id + " " + err.Error())
		os.Exit(2)
	}
	defer os.RemoveAll(tmp)
	foundDir := filepath.Join(verifDir, "replays", "found")
	os.MkdirAll(foundDir, 0o755)

	type shardRes struct {
		out    string
		err    error
		replay string
	}
	results := make([]shardRes, tc.Shards)
	var wg sync.WaitGroup
	for i := 0; i < tc.Shards; i++ {
		wg.Add(1)
		go func(i int) {
			defer wg.Done()
			s := mix(seed, i)
			rp := filepath.Join(foundDir, fmt.Sprintf("%s-seed%d-shard%d.json", id, seed, i))
			os.Remove(rp)
			env := append(goEnv(), "VERIF_STATS_OUT="+filepath.Join(tmp, fmt.Sprintf("stats-%d.json", i)),
				"VERIF_REPLAY_OUT="+rp, "VERIF_TIER="+tier, fmt.Sprintf("VERIF_SHARD=%d", i))
			if cfg.Race {
				env = append(env, "LHEXEC="+filepath.Join(verifDir, "bin/lhexec-race"))
			}
			out, err := run(verifDir, env, filepath.Join(verifDir, "bin/props.test"), "-test.run", "^Test"+id+"$",
				fmt.Sprintf("-rapid.checks=%d", tc.Checks), fmt.Sprintf("-rapid.seed=%d", s), "-rapid.nofailfile",
				"-rapid.shrinktime=20s", "-test.timeout=0")
			results[i] = shardRes{out, err, rp}
		}(i)
	}
	wg.Wait()

	for i, r := range results {
		if r.err == nil {
			continue
		}
		if _, serr := os.Stat(r.replay); serr == nil && strings.Contains(r.out, "violated") {
			violations = append(violations, r.replay)
			fmt.Printf("--- shard %d\n%s\n", i, firstLines(stripDraws(r.out), 40))
		} else {
			inconclusive = append(inconclusive, fmt.Sprintf("shard %d: %v: %s", i, r.err, lastLines(r.out, 15)))
		}
	}

	// 2b. every saved case is re-decided from scratch (fresh process, fresh child, full deadlines)
	// before it is reported; schedule-dependent properties keep the observed witness instead
	if id != "C09" && id != "C10" && len(violations) > 0 {
		keep := make([]bool, len(violations))
		var wg2 sync.WaitGroup
		for i, v := range violations {
			if !strings.Contains(v, string(filepath.Separator)+"found"+string(filepath.Separator)) {
				keep[i] = true
				continue
			}
			wg2.Add(1)
			go func(i int, v string) {
				defer wg2.Done()
				code, _ := replay(v, cfg.Race)
				keep[i] = code == 1
			}(i, v)
		}
		wg2.Wait()
		var kept []string
		for i, v := range violations {
			if keep[i] {
				kept = append(kept, v)
			} else {
				inconclusive = append(inconclusive, "a failure did not reproduce from its saved case "+v)
			}
		}
		violations = kept
	}

	// 3. merge statistics
	merged := shardStats{Classes: map[string]int{}}
	nt := map[uint64]struct{}{}
	for i := 0; i < tc.Shards; i++ {
		b, err := os.ReadFile(filepath.Join(tmp, fmt.Sprintf("stats-%d.json", i)))
		if err != nil {
			continue
		}
		var s shardStats
		if json.Unmarshal(b, &s) != nil {
			continue
		}
		merged.Evaluations += s.Evaluations
		merged.Queries += s.Queries
		merged.DontCare += s.DontCare
		merged.Excluded += s.Excluded
		merged.Unconfirmed += s.Unconfirmed
		merged.Spawned += s.Spawned
		for k, v := range s.Classes {
			merged.Classes[k] += v
		}
		for _, h := range s.NTHashes {
			nt[h] = struct{}{}
		}
		if len(merged.Samples) < 5 {
			for _, sm := range s.Samples {
				if len(merged.Samples) < 5 {
					merged.Samples = append(merged.Samples, sm)
				}
			}
		}
		for _, m := range s.Inconclusive {
			if len(merged.Inconclusive) < 10 {
				merged.Inconclusive = append(merged.Inconclusive, m)
			}
		}
	}

	// 4. native fuzzing (thorough tier only, where a target exists)
	fuzzNote := ""
	if tier == "thorough" && cfg.FuzzTarget != "" && tc.FuzzSecs > 0 {
		crasher, note := nativeFuzz(id, cfg.FuzzTarget, tc.FuzzSecs)
		fuzzNote = note
		if crasher != "" {
			violations = append(violations, crasher)
		}
	}

	wall := time.Since(start).Seconds()
	writeEvidence(id, tier, seed, cfg, merged, len(nt), violations, knownSeen, inconclusive, fuzzNote, wall)

	keys := make([]string, 0, len(merged.Classes))
	for k := range merged.Classes {
		keys = append(keys, k)
	}
	sort.Strings(keys)
	var cl []string
	for _, k := range keys {
		cl = append(cl, fmt.Sprintf("%s=%d", k, merged.Classes[k]))
	}
	fmt.Printf("property=%s tier=%s seed=%d evaluations=%d distinct_nontrivial=%d queries=%d excluded=%d unconfirmed=%d wall=%.1fs\nclasses: %s\n",
		id, tier, seed, merged.Evaluations, len(nt), merged.Queries, merged.Excluded, merged.Unconfirmed, wall, strings.Join(cl, " "))
	if fuzzNote != "" {
		fmt.Println(fuzzNote)
	}
	os.RemoveAll(tmp) // os.Exit below skips the deferred clean-up
	if len(violations) > 0 {
		for _, v := range violations {
			fmt.Printf("VIOLATION property=%s replay=%s\n", id, v)
		}
		os.Exit(1)
	}
	if len(inconclusive) > 0 || len(merged.Inconclusive) > 0 {
		for _, m := range inconclusive {
			fmt.Println("INCONCLUSIVE property="+id, m)
		}
		for _, m := range merged.Inconclusive {
			fmt.Println("INCONCLUSIVE property="+id, m)
		}
		if len(inconclusive) > 0 {
			os.Exit(2)
		}
	}
	os.Exit(0)
}

func stripDraws(s string) string {
	var b strings.Builder
	for _, l := range strings.Split(s, "\n") {
		if strings.Contains(l, "[rapid] draw") {
			continue
		}
		b.WriteString(l)
		b.WriteByte('\n')
	}
	return b.String()
}

func firstLines(s string, n int) string {
	ls := strings.Split(s, "\n")
	if len(ls) > n {
		ls = ls[:n]
	}
	return strings.Join(ls, "\n")
}

func lastLines(s string, n int) string {
	ls := strings.Split(strings.TrimSpace(s), "\n")
	if len(ls) > n {
		ls = ls[len(ls)-n:]
	}
	return strings.Join(ls, "\n")
}

func writeEvidence(id, tier string, seed int64, cfg propCfg, m shardStats, nt int, violations, known, inconclusive []string, fuzzNote string, wall float64) {
	samples := []interface{}{}
	for _, s := range m.Samples {
		samples = append(samples, s)
	}
	cov := map[string]interface{}{
		"evaluations":                m.Evaluations,
		"distinct_nontrivial":        nt,
		"rule":                       cfg.Rule,
		"samples":                    samples,
		"queries":                    m.Queries,
		"classes":                    m.Classes,
		"dont_care":                  m.DontCare,
		"excluded_by_known_finding":  m.Excluded,
		"unconfirmed_in_fresh_child": m.Unconfirmed,
		"children_spawned":           m.Spawned,
		"known_findings_seen":        known,
		"exhaustive":                 false,
	}
	if fuzzNote != "" {
		cov["native_fuzz"] = fuzzNote
	}
	if len(inconclusive)+len(m.Inconclusive) > 0 {
		cov["inconclusive"] = append(append([]string{}, inconclusive...), m.Inconclusive...)
	}
	if len(violations) > 0 {
		cov["violation_replays"] = violations
	}
	ev := map[string]interface{}{
		"property_id": id,
		"tier":        tier,
		"seed":        seed,
		"level":       "exploration",
		"coverage":    cov,
		"assumptions": cfg.Assumptions,
		"wall_s":      wall,
		"violations":  len(violations),
	}
	b, _ := json.MarshalIndent(ev, "", " ")
	os.MkdirAll(filepath.Join(verifDir, "evidence"), 0o755)
	os.WriteFile(filepath.Join(verifDir, "evidence", id+".json"), b, 0o644)
}
