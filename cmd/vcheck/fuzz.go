package main

import (
	"context"
	"fmt"
	"os"
	"os/exec"
	"path/filepath"
	"regexp"
	"strings"
	"time"
)

// Native (coverage-guided) fuzzing, thorough tier. The targets live in /verif/props behind the verif
// build tag (props/fuzz_verif_test.go) and run LuaHelper's parsers inside the fuzzing process. A
// failing input is the reproducible unit (Go's fuzzer cannot be seeded): the corpus file the fuzzer
// wrote is moved to replays/found/<id>-<Target>-<hash>.fuzz and re-decided by `vcheck <id> --replay`.

var (
	reFailing = regexp.MustCompile(`Failing input written to (testdata/fuzz/\S+)`)
	reExecs   = regexp.MustCompile(`execs: (\d+)`)
)

func fuzzDir() string { return filepath.Join(verifDir, "props") }

// nativeFuzz runs a Go native fuzz target for the given number of seconds. Returns the path of a
// crasher (if any) and a note for the evidence file.
func nativeFuzz(id, target string, secs int) (string, string) {
	os.RemoveAll(filepath.Join(fuzzDir(), "testdata", "fuzz", target))
	ctx, cancel := context.WithTimeout(context.Background(), time.Duration(secs+300)*time.Second)
	defer cancel()
	cmd := exec.CommandContext(ctx, "go", "test", "-tags", "verif", "-run", "^$", "-fuzz", "^"+target+"$", "-fuzztime", fmt.Sprintf("%ds", secs), "./props")
	cmd.Dir = verifDir
	cmd.Env = goEnv()
	outB, err := cmd.CombinedOutput()
	out := string(outB)
	execs := "0"
	if m := reExecs.FindAllStringSubmatch(out, -1); len(m) > 0 {
		execs = m[len(m)-1][1]
	}
	note := fmt.Sprintf("native fuzzing: target %s, %d s on all cores, %s executions", target, secs, execs)
	if m := reFailing.FindStringSubmatch(out); m != nil {
		src := filepath.Join(fuzzDir(), m[1])
		dst := filepath.Join(verifDir, "replays", "found", fmt.Sprintf("%s-%s-%s.fuzz", id, target, filepath.Base(src)))
		os.MkdirAll(filepath.Dir(dst), 0o755)
		if b, rerr := os.ReadFile(src); rerr == nil {
			os.WriteFile(dst, b, 0o644)
		}
		os.RemoveAll(filepath.Join(fuzzDir(), "testdata", "fuzz", target))
		if i := strings.Index(out, "VERIF-FUZZ"); i >= 0 {
			fmt.Println(lastLines(out[i:], 12))
		}
		return dst, note + "; a failing input was found"
	}
	if err != nil && !strings.Contains(out, "\nPASS") {
		return "", note + "; the fuzz run did not complete: " + lastLines(out, 3)
	}
	return "", note + "; no failing input"
}

// replayFuzz re-decides a saved fuzz input: 0 ok, 1 violation, 2 inconclusive.
func replayFuzz(path string) (int, string) {
	base := filepath.Base(path)
	parts := strings.SplitN(strings.TrimSuffix(base, ".fuzz"), "-", 3)
	if len(parts) != 3 {
		return 2, "not a fuzz replay file name: " + base
	}
	target, hash := parts[1], parts[2]
	dir := filepath.Join(fuzzDir(), "testdata", "fuzz", target)
	os.MkdirAll(dir, 0o755)
	b, err := os.ReadFile(path)
	if err != nil {
		return 2, err.Error()
	}
	os.WriteFile(filepath.Join(dir, hash), b, 0o644)
	defer os.RemoveAll(filepath.Join(fuzzDir(), "testdata", "fuzz", target))
	out, rerr := run(verifDir, append(goEnv(), "VERIF_UNGATED=1"), "go", "test", "-tags", "verif", "-count=1", "-run", "^"+target+"$/^"+hash+"$", "./props")
	switch {
	case strings.Contains(out, "VERIF-FUZZ"):
		return 1, out
	case rerr == nil && strings.Contains(out, "ok"):
		return 0, out
	}
	return 2, out
}
