package main

// nativeFuzz runs a Go native fuzz target for the given number of seconds. Returns the path of a
// crasher (if any) and a note for the evidence file.
func nativeFuzz(id, target string, secs int) (string, string) {
	return "", "native fuzzing not wired for " + id
}
