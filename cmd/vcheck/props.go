package main

var commonAssume = []string{
	"the executor child lhexec (built with -tags verif from /repo's working tree) drives the real jrpc2 server created by langserver.CreateServer over an in-memory channel; the build-tag hooks are read-only",
	"only protocol-conformant traffic is generated (initialize/initialized first, didSave carries text and follows the disk write, positions on UTF-16 boundaries)",
	"a failure is reported only after it reproduced in a brand-new child process",
}

var refluaAssume = "the reference Lua front end /verif/reflua (lexer, parser, binder; written from the Lua 5.4 manual) is trusted; no Lua interpreter exists in the sandbox to cross-check it"

// tiers: rapid checks per shard (16 shards) for quick / thorough, native fuzz seconds (thorough)
var tiers = map[string][3]int{
	"C02": {1500, 12000, 0},
	"C03": {8000, 150000, 240},
	"C05": {1200, 20000, 0},
	"C06": {800, 15000, 0},
	"C12": {150, 3000, 0},
	"C11": {800, 8000, 0},
	"C07": {3000, 40000, 0},
	"C14": {1500, 30000, 0},
	"C04": {600, 8000, 0},
	"C01": {300, 8000, 300},
	"C19": {1500, 30000, 0},
	"C13": {1500, 30000, 0},
	"C20": {1500, 30000, 0},
	"C08": {400, 8000, 0},
	"C17": {2500, 30000, 0},
	"C18": {1000, 25000, 0},
	"C16": {600, 15000, 240},
}

func tierOf(id string, thorough bool) tierCfg {
	t := tiers[id]
	if thorough {
		return tierCfg{Shards: 16, Checks: t[1], FuzzSecs: t[2]}
	}
	return tierCfg{Shards: 16, Checks: t[0]}
}

func init() {
	props["C02"] = propCfg{
		Rule:        "rapid generates an initial document (0-12 lines of Lua-like fragments over ASCII, 2-byte, 3-byte and astral characters, LF/CRLF/CR line ends, optional missing final newline) and 1-20 steps (incremental didChange batches of 1-3 edits positioned in the text produced by the earlier ones, full-text didChange, save = disk write + didSave, close + reopen); after every step the server's cached bytes (verif accessor) must equal a reference text buffer written from the LSP specification. Non-trivial = a sequence with an incremental edit on a document of >= 2 lines with a non-ASCII character or CR before the edit position; distinct by hash of the whole case.",
		Assumptions: append([]string{"reference text buffer: lines end at LF, CRLF or CR; characters are UTF-16 code units; a character beyond the line end clamps to the line end"}, commonAssume...),
	}
	props["C03"] = propCfg{
		Rule:        "luagen generates programs valid by construction (all statement kinds, all operators, attribs, goto/labels, method definitions, varargs, every numeral and string form incl. hex floats, huge exponents, LL/ULL, \\z, \\u{}, long brackets of level 0-2) and, for two thirds of the cases, one single-token mutation (delete, duplicate, swap, substitute by keyword/operator); rendered with a layout generator (spaces, tabs, \\v, \\f, LF/CRLF/CR, short and long comments with ASCII/BMP/astral text, optional shebang). Oracle: the reference recogniser reflua classifies the text valid / invalid / context-only; the parser must report >=1 error iff invalid and 0 errors if valid; 5% of the cases also go through a full LSP session (type-1 diagnostics iff parser errors). Non-trivial: a valid text with >= 8 tokens and >= 1 rare feature, or an invalid text that is a single-token mutant of a valid one; distinct by text.",
		Assumptions: append([]string{refluaAssume, "context-only programs (break outside loop, goto without label, ... outside vararg, unknown attribute) and texts with bytes >= 0x80 outside strings/comments are don't-care"}, commonAssume...),
	}
	props["C05"] = propCfg{
		Rule:        "luagen generates 1-3-file workspaces (tiny name pool a..e to force shadowing, redeclaration in the same block, sibling-scope reuse, upvalues, parameters, loop variables, local function recursion, repeat-until reads, method definitions, globals defined in one file and read in another; simple one-statement-per-line layout); textDocument/definition is asked at the first and the last character of every variable occurrence. Oracle: the reference binder — a bound occurrence must yield exactly the declaring identifier's range, a global with defining assignments in the workspace a non-empty set of such assignments, anything else nothing. Non-trivial: a workspace with a queried name declared at least twice in its file, an upvalue, or a cross-file global; distinct by workspace text.",
		Assumptions: append([]string{refluaAssume, "don't-care: self, _G, _ENV, built-in library names, field names, labels"}, commonAssume...),
	}
	props["C06"] = propCfg{
		Rule:        "workspaces as in C05; textDocument/references (declarations included, the server default) is asked at every variable occurrence. Oracle: set equality between the returned (file, range) set and the reference binder's occurrence class of that variable (declaration, reads, assignment targets; for a global: every occurrence bound to that global in every file). Non-trivial: a workspace where a queried class has >= 3 members including an assignment target, or a global class spanning several files; distinct by workspace text.",
		Assumptions: append([]string{refluaAssume, "don't-care: self, _G, built-in names, globals that no file defines"}, commonAssume...),
	}
	props["C12"] = propCfg{
		Rule:        "positions: every variable occurrence of generated workspaces (as C05) and, for 5% of the cases, of a workspace taken verbatim from the repository's testdata directories. No external oracle: for position p with D = definition(p), R = references(p): every r in R must resolve to D; p must be among references(D); documentHighlight(p) must equal the members of R in p's file; hover(p) must name the identifier and start with `local` exactly when the declaration found at D is a local declaration. Non-trivial: a workspace with a queried name declared at least twice in its file; distinct by workspace text.",
		Assumptions: append([]string{"no edits are sent in these sessions (highlight is rate-limited for 3 s after a change)", "don't-care: built-ins, self, field names; testdata files with tabs or non-ASCII text are not queried (column defects belong to C04)"}, commonAssume...),
	}
	props["C11"] = propCfg{
		Rule:        "workspaces as in C05; 1-6 renameable occurrences per workspace (locals, parameters, loop variables, local functions, globals across files) are renamed to a fresh identifier of a different length. Oracle: (1) edits do not overlap, each covers exactly the old name, and the edit set equals the reference binder's occurrence class; (2) metamorphic: the edit is applied to the client's files, the result must be valid Lua whose binding graph (reference binder) is isomorphic to the original's, and a fresh server on the edited workspace must publish the original diagnostics (all checks on) with positions shifted by the edits. Non-trivial: the renamed variable has >= 2 occurrences and another variable of the same old name exists in the file; distinct by workspace text + picks.",
		Assumptions: append([]string{refluaAssume, "new names are fresh in the workspace, not keywords or built-ins"}, commonAssume...),
	}
	props["C07"] = propCfg{
		Rule:        "1-3-file workspaces mixing locals, parameters, loop variables, shadowing, closure-only and until-only reads, write-only locals, globals defined in another file / later in the same file, never-defined globals (Undef1, Undef2), built-ins; configuration by client flags (checks 1,2,3,4,17) or by luahelper.json (IgnoreModules, IgnoreErrorTypes). Oracle: reference binder — expected type 2 = reads bound to no local, defined by no file, not built-in, not ignored; type 3 = top-level read whose only definitions are later top-level assignments of the same file; type 4 = never-read locals minus the documented exemptions (function values, _, parameters, loop variables, <close>, library aliases, require results); type 17 = assignment sites of those. Compared as sets of (file, range, type) in both directions. Non-trivial: a workspace with >= 1 expected type 2, >= 1 expected type 4 and >= 1 tempting non-warning (upvalue read or cross-file global); distinct by workspace text + mode.",
		Assumptions: append([]string{refluaAssume, "don't-care (accepted either way): reads that are operands of and/or/==/~=/not or sit in a condition, reads inside the statement that defines the same global, globals defined both later in the file and in another file, write-only locals that are later assigned a function or library alias"}, commonAssume...),
	}
	props["C14"] = propCfg{
		Rule:        "1-2 files with uniquely named declarations that all share the prefix `ab` (locals, parameters, loop variables, local functions, globals abG1/abG2/abgfun); one statement `local zq = ab` is planted at a random statement boundary of a random block such that the file stays valid (checked with the reference parser); textDocument/completion at the end of `ab`. Oracle: with V = prefix-matching locals visible at the cursor per the reference binder, W = prefix-matching globals defined in the workspace, I = locals declared after the cursor or in a block that does not enclose it: labels must contain V and W and must not contain any member of I. Non-trivial: V and I both non-empty; distinct by workspace text + cursor.",
		Assumptions: append([]string{refluaAssume, "don't-care: extra fuzzy matches, keywords, snippets, library names, the planted zq itself, locals whose own initialiser contains the cursor"}, commonAssume...),
	}
	props["C04"] = propCfg{
		Rule:        "1-2 files of valid programs (20% with one token mutation) rendered with the wild layout: any two tokens may be separated by spaces, tabs, \\v, \\f, LF/CRLF/CR, short comments, long comments of level 0-2 (single- and multi-line, with ASCII / Cyrillic / CJK / astral text), and literals include strings with every escape form, long-bracket strings and non-ASCII strings — so identifiers regularly follow such tokens on the same line. All checks are enabled. Every published diagnostic range, and every range returned by definition / references / documentHighlight / rename at each variable occurrence, documentSymbol of each file and workspace/symbol (each global name and the empty query) is checked against the client's own text: inside the document, start <= end, on UTF-16 boundaries; for results that designate a named entity (locations, highlights, rename edits, diagnostics of types 2/3/4/17) the text under the range must be exactly the identifier. Non-trivial: a workspace with an occurrence preceded on its line by a string, comment, tab or non-ASCII character; distinct by workspace text.",
		Assumptions: append([]string{refluaAssume, "LF+CR is never generated (one line break for Lua, two lines for LSP)", "containment only is checked for ranges that designate statements or expressions"}, commonAssume...),
	}
	props["C01"] = propCfg{
		FuzzTarget:  "FuzzSession",
		Rule:        "chaos sessions: 1-3 files drawn from {valid program; 1-5 token mutations; byte splices (NUL, 0x80-0xFF, stray quotes/brackets); 40 hostile templates (10^3-10^4-deep nesting, unfinished strings/long brackets/comments at EOF, backslash at EOF, operator runs, malformed numerals, cyclic value chains); hostile annotation blocks (cyclic classes / aliases, enum blocks, broken generics/overloads); generated annotation lines with character corruptions; random bytes}; configuration = server default, random client flag subset with ignore lists (incl. invalid regular expressions), a well-typed random luahelper.json, or a broken / wrongly typed luahelper.json (a clean initialize error is accepted); then 5-40 conformant steps (didOpen, full and incremental didChange, save = disk write + didSave, didClose, watched-file create/change/delete with the disk operation, didChangeConfiguration, didChangeWorkspaceFolders) interleaved with every request kind at token starts/ends, line starts/ends, EOF, (0,0) and characters beyond the line end. Oracle: the process is alive, every request got a result or a JSON-RPC error within 20 s (re-run alone with 120 s and the default 1 GB stack before reporting), the parser's recover() swallowed no non-sentinel panic. Non-trivial: a session with a non-valid or annotated file and a request issued after an edit; distinct by case.",
		Assumptions: append([]string{"executor stack limit 128 MiB (every stack overflow is re-confirmed under the default limit)", "non-conformant traffic is not generated"}, commonAssume...),
	}
	props["C19"] = propCfg{
		Rule:        "1-3 files built from declaration templates with unique names: top-level locals, globals, global and local functions, local and global tables with members defined as function t.f / function t:m / t.f = function / t.v = literal, ---@class blocks followed by their variable, table constructors with fields; function bodies contain nested locals. Oracle: the generator knows every declaration and the byte offset of its declaring identifier; documentSymbol (flattened) must hold, for each declaration, an entry whose name contains the declared name and whose well-formed in-file range contains the declaring identifier; workspace/symbol with the exact name of every global, global function and member of a global table must return an entry in the declaring file located at the declaring identifier. Non-trivial: a workspace with >= 2 table members; distinct by workspace text.",
		Assumptions: append([]string{"don't-care: extra entries, detail, kind, name decoration, locals inside functions, fields written inside a table constructor"}, commonAssume...),
	}
	props["C13"] = propCfg{
		Rule:        "a file of 1-7 declarations (local / global variable with an integer or string literal, global / local function, function t.f, function t:m, t.v = literal) each with no comment, a trailing comment, a leading block of 1-3 comment lines directly above, both, or a block separated by a blank line; comment text over ASCII, 2-byte (accented Latin, Cyrillic, Greek), CJK, astral and mixed alphabets; hover is asked at a use of every name. Oracle: the label contains the identifier, starts with `local` iff the declaration is local, contains the literal as written (integers, strings) and the parameter names in order; the documentation part is exactly the expected comment lines (trailing comment first, else the leading block, none when separated by a blank line), byte for byte. Non-trivial: a case with a commented declaration whose comment has a non-ASCII character; distinct by file text.",
		Assumptions: append([]string{"don't-care: long-bracket comments as documentation, annotation comments, comment text starting with dashes/stars/space runs, float and boolean literals in the label, GBK-encoded sources"}, commonAssume...),
	}
	props["C20"] = propCfg{
		Rule:        "valid programs from the grammar-directed generator in pattern mode: table constructors reuse keys (k / [\"k\"] / [1] / [\"1\"] / K), binary expressions repeat their left operand, use `or true` / `and false` / `or false` / float and integer literals on the right, elseif conditions repeat the if condition, assignments repeat their target list as value list, parameter lists repeat a name or use `_`, local declarations and assignments have more / fewer values than targets — all at random depths (closures, constructors, call arguments, conditions). Only checks 1, 5, 7, 8, 13-16, 19-21 are enabled. Oracle: an independent pattern matcher over the reference parser's syntax tree computes the multiset of (check, line); every documented instance must be reported and nothing may be reported where the pattern does not occur; shapes the documentation is silent about (redundant parentheses, constant on the left, calls/operators in a shortfall, three equal keys/params/conditions, non-d.d float spellings, bracket-vs-dot keys) are accepted either way and counted. Non-trivial: a program with >= 1 hard instance; distinct by text.",
		Assumptions: append([]string{refluaAssume, "reports are matched by check number and start line of the reported range (exact columns are C04's subject)"}, commonAssume...),
	}
	props["C08"] = propCfg{
		Rule:        "model-based history generation over 2-4 files (one in a sub-directory) whose contents are drawn from fragments {clean, syntax error, unused local, defines the file's global, reads another file's global, requires another file, unfinished block}: actions create / change / delete of closed files (disk operation + didChangeWatchedFiles), open, edit without saving (full text or incremental), save (disk write + didSave), close (with or without unsaved edits); the model tracks disk contents, open buffers and dirty flags. After every action the publishDiagnostics stream is folded into the per-file view and compared (as a set of file, range, type, message) with (1) the view of a server freshly started on the model's disk contents when no buffer is dirty, and (2) for a dirty buffer: its own syntax errors (computed by a fresh server on the buffer text) if it has any, else the saved file's non-syntax diagnostics; files without unsaved edits must always equal the fresh view. Non-trivial: a history with a create or delete and an edit followed later by a save; distinct by history.",
		Assumptions: append([]string{"a buffer counts as dirty from its first didChange until save / close, even if its text equals the saved text", "only closed files are created / changed / deleted externally"}, commonAssume...),
	}
	props["C17"] = propCfg{
		Rule:        "workspaces of four files built from 19 fragments that trigger the diagnostic types 2-10, 12-21 (plus a file with a syntax error, type 1), at random; configurations: random subsets of the 25 flags with forced shapes (all but one, single one, the five cross-file flags off), master switch, error-ignore lists and analysis-exclusion lists over literal file names, folder names and regular expressions, per-file type rules (json route); delivered by initializationOptions, by workspace/didChangeConfiguration (sent twice) or by luahelper.json; one case in eight carries malformed settings (invalid regular expressions, truncated JSON, wrongly typed values, unknown keys). Oracle (differential / metamorphic): D_c must equal filter(D_all, c), where D_all is the view of the all-enabled run by the same route and filter removes a diagnostic iff its type is off, the master switch is off, or its file matches an ignore / exclusion / per-file type rule as documented; malformed settings must leave the server alive and either be rejected by initialize or behave as if the bad entry were absent. Non-trivial: a configuration that removes >= 1 and keeps >= 1 diagnostic of D_all; distinct by case.",
		Assumptions: append([]string{"files are self-contained, so excluding a file from analysis changes only its own diagnostics", "file and folder names are chosen so that patterns cannot match the scratch directory's own path"}, commonAssume...),
	}
	props["C18"] = propCfg{
		Rule:        "directory trees drawn from a universe with nested modules, duplicate base names (alpha.lua, mods/alpha.lua), init.lua packages (pkg/init.lua, deep/x/init.lua), a three-level path and a native .so; a main file with 1-6 require calls (dotted, slashed, single-name, partial-path and non-existing module strings) and 0-2 dofile calls with suffixed paths; RequirePathSeparator '.' or '/'; then 0-6 create / delete events of the Lua files (disk operation + didChangeWatchedFiles). After the initial analysis and after every event: the reference resolver (module string -> path with '.' as '/', candidates = files equal to or ending in /path.lua, else /path/init.lua; a .so at the root tolerated) decides: type-6 diagnostic on the call iff no candidate; go-to-definition on the string is empty iff no candidate, else the start of a candidate; hover names a Lua file iff a candidate exists and the path it shows is a suffix of the file go-to-definition opened. Non-trivial: a module string with >= 2 path components that resolves, or an answer that changes during the history; distinct by case.",
		Assumptions: append([]string{"don't-care: which of several candidates is chosen, dotted names under the '/' separator setting, native modules created or deleted after start-up, precedence between a .so and a Lua file of the same name, ReferMatchPathFlag mode, frame import functions"}, commonAssume...),
	}
	props["C16"] = propCfg{
		FuzzTarget:  "FuzzAnnot",
		Rule:        "1-6 annotation lines per case derived from the grammar of docs/manual/annotate.md: type (1-3 comma-separated types), class (0-3 parents), field (visibility, name, type), param (optional marker), return (1-3 types), alias, generic (with bounds), overload, vararg; type expressions of nesting depth 0-4 over base names, class names, unions, T[] (also T[][]), table<K,V>, fun(a: T, b?: U): R1, R2 and parentheses (inserted wherever the grammar would otherwise attach a return list or array suffix differently); optional trailing @comments in ASCII and CJK. Oracle: (a) each line is accepted by the annotation parser and, embedded in an otherwise valid file, raises no type-18 diagnostic; (b) the parser's AST, dumped in a canonical form, equals the canonical form of the generator's own AST (unions flattened, parentheses dropped); (c) round trip: TypeConvertStr of every understood type, read again, gives the same canonical AST. One case in three also corrupts one line by deleting / duplicating / replacing a token and compares the diagnostics of the file with and without the corruption: every other line keeps exactly its diagnostics and anything new on the corrupted line is of type 18. Non-trivial: a line whose type has depth >= 2 with a union inside an array or a fun inside a fun; distinct by case.",
		Assumptions: append([]string{"the generator's printer is the reference reading of the documented grammar ('|' binds looser than '[]', parentheses group, a fun's return list extends as far as possible)"}, commonAssume...),
	}
}
