#!/usr/bin/env python3
# usage: addkf.py '<json entry>'
import json,sys
k=json.load(open('/verif/known_findings.json'))
e=json.loads(sys.argv[1])
k['findings']=[f for f in k['findings'] if f['id']!=e['id']]+[e]
json.dump(k,open('/verif/known_findings.json','w'),indent=1,ensure_ascii=False)
