#!/bin/bash
# quickall.sh <seed> [tier] : every property's check on the current tree; one summary line each
seed=${1:-1}; tier=${2:-quick}
cd /verif
for i in $(seq -w 1 20); do
  id=C$i; s=$(date +%s)
  VERIF_SEED=$seed ./bin/vcheck $id --tier $tier > /dev/shm/quickall-$id.out 2>&1; rc=$?
  echo "$id seed=$seed tier=$tier exit=$rc secs=$(( $(date +%s) - s )) $(grep -c '^VIOLATION' /dev/shm/quickall-$id.out) violations, $(grep -c '^INCONCLUSIVE' /dev/shm/quickall-$id.out) inconclusive"
done
