#!/bin/bash
# seedrun.sh Cxx [tier] [check ids...] : apply /verif/seeded/Cxx/patch.diff to /repo, run the checks, undo.
# Never commits to /repo. Serialised through a lock.
id=$1; tier=${2:-quick}; shift; shift
checks=${@:-${id%%-*}}
exec 9>/dev/shm/seedrun.lock; flock 9
cd /verif
if [ -n "$(git -C /repo status --porcelain)" ]; then echo "/repo not clean"; exit 3; fi
git -C /repo apply /verif/seeded/$id/patch.diff || exit 3
trap 'git -C /repo checkout -- . ; ./bin/vcheck build >/dev/null 2>&1' EXIT
for c in $checks; do
  start=$(date +%s)
  VERIF_SEED=${VERIF_SEED:-1} ./bin/vcheck $c --tier $tier > /dev/shm/seedrun-$id-$c.out 2>&1
  rc=$?
  echo "seeded=$id check=$c tier=$tier seed=${VERIF_SEED:-1} exit=$rc secs=$(( $(date +%s) - start ))"
  grep -E '^(VIOLATION|KNOWN-FINDING|INCONCLUSIVE)' /dev/shm/seedrun-$id-$c.out | head -5
done
