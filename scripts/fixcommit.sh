#!/bin/bash
# usage: fixcommit.sh "<message>"   — runs the repository's test suite (guard off) and commits /repo only if it passes
set -e
cd /repo/luahelper-lsp
go build ./... 
go build -tags verif ./...
out=$(go test -vet=off -count=1 ./... 2>&1) || { echo "$out" | grep -v "no test files" | tail -20; echo "TESTS FAILED - not committed"; exit 1; }
echo "$out" | grep -c "^ok" 
cd /repo
git add -A luahelper-lsp
git commit -qm "$1"
git log --oneline | head -1
