#!/bin/bash
# seedall.sh [tier] : run every property's check against its own seeded change; writes seeded/RESULTS.txt
tier=${1:-quick}
out=/verif/seeded/RESULTS.txt
: > $out
for d in /verif/seeded/C*/; do
  id=$(basename $d)
  /verif/scripts/seedrun.sh $id $tier ${id%%-*} | grep '^seeded=' >> $out
  rm -f /verif/replays/found/${id%%-*}-*.json
done
cat $out
