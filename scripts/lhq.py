#!/usr/bin/env python3
# usage: lhq.py file.lua method line char  -> prints raw lhexec response / stderr
import json,base64,subprocess,sys,os
text=open(sys.argv[1]).read()
method=sys.argv[2]; line=int(sys.argv[3]); ch=int(sys.argv[4])
params={"textDocument":{"uri":"file:///ROOT/main.lua"},"position":{"line":line,"character":ch}}
if method.endswith("references"): params["context"]={"includeDeclaration":True}
if method.endswith("rename"): params["newName"]="zzz"
if method.endswith("completion"): params["context"]={"triggerKind":1}
opts={"AllEnable":True}
for k in ["CheckSyntax","CheckNoDefine","CheckAfterDefine","CheckLocalNoUse","CheckTableDuplicateKey","CheckReferNoFile","CheckAssignParamNum","CheckLocalDefineParamNum","CheckGotoLable","CheckFuncParam","CheckImportModuleVar","CheckIfNotVar","CheckFunctionDuplicateParam","CheckBinaryExpressionDuplicate","CheckErrorOrAlwaysTrue","CheckErrorAndAlwaysFalse","CheckNoUseAssign","CheckAnnotateType","CheckDuplicateIf","CheckSelfAssign","CheckFloatEq","CheckClassField","CheckConstAssign","CheckFuncParamType","CheckFuncReturnType"]: opts[k]=True
req={"cmd":"session","files":[{"path":"main.lua","data":base64.b64encode(text.encode()).decode()}],"initOptions":opts,
 "steps":[{"op":"notify","method":"textDocument/didOpen","params":{"textDocument":{"uri":"file:///ROOT/main.lua","languageId":"lua","version":1,"text":text}}},
          {"op":"call","method":method,"params":params}]}
env=dict(os.environ)
p=subprocess.run(["/verif/bin/lhexec"],input=(json.dumps(req)+"\n").encode(),capture_output=True,env=env)
out=p.stdout.decode()
try:
    r=json.loads(out)
    for pu in r.get('pushes',[]):
        for d in pu.get('diags',[]): print("DIAG",pu['uri'],d['SL'],d['SC'],d['EL'],d['EC'],d['Message'])
    for x in r.get('results',[]): print("RESULT",json.dumps(x.get('result')),x.get('error',''))
except Exception as e:
    print(out[:500])
sys.stderr.write(p.stderr.decode())
