#!/bin/bash
# seedr2.sh Cxx <demo dest> "<needs>" : confirm a round-2 seeded change and run the property's quick check against it
id=$1
SEED_ROUND=${SEED_ROUND:-2} python3 /verif/scripts/seedconfirm.py "$id" "$2" "$3" 2>&1 | tail -4
[ -d /verif/seeded/$id-r${SEED_ROUND:-2} ] || exit 1
/verif/scripts/seedrun.sh $id-r${SEED_ROUND:-2} quick | grep -v KNOWN-FINDING | head -3
rm -f /verif/replays/found/$id-*.json
