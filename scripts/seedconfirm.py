#!/usr/bin/env python3
"""Confirm a seeded change produced by a sub-agent and store it under /verif/seeded/<id>/.

usage: seedconfirm.py Cxx <demo destination relative to luahelper-lsp/> ["needs to manifest" text]

Works in the agent's scratch worktree /tmp/seedwt/Cxx (never in /repo):
  1. the worktree's diff must equal /tmp/seedout/Cxx/patch.diff (re-created from the worktree if not)
  2. with the change: go build ./... and the unedited test suite must pass
  3. with the change: the demonstration test must FAIL
  4. without the change (git apply -R): the demonstration test must PASS
Only then the change is kept.
"""
import json, os, re, shutil, subprocess, sys

ENV = dict(os.environ, GOFLAGS="-mod=mod", GOPROXY="off", GOSUMDB="off", GOTOOLCHAIN="local")


def sh(cmd, cwd, ok_codes=(0,)):
    p = subprocess.run(cmd, shell=True, cwd=cwd, env=ENV, stdout=subprocess.PIPE, stderr=subprocess.STDOUT, text=True)
    return p.returncode, p.stdout


def main():
    pid, dest = sys.argv[1], sys.argv[2]
    needs = sys.argv[3] if len(sys.argv) > 3 else ""
    rnd = os.environ.get("SEED_ROUND", "")
    wt, out = f"/tmp/seedwt{rnd}/{pid}", f"/tmp/seedout{rnd}/{pid}"
    mod = f"{wt}/luahelper-lsp"
    ran = []
    # clean stray files the agent may have left (demo copies), keep tracked modifications
    rc, st = sh("git status --porcelain", wt)
    untracked = [l[3:] for l in st.splitlines() if l.startswith("??")]
    for u in untracked:
        p = os.path.join(wt, u)
        shutil.rmtree(p) if os.path.isdir(p) else os.remove(p)
    # the agent's patch.diff is the authority (worktrees of one repository share a stash stack, and
    # parallel agents using `git stash` can leave a foreign change behind): reset, then apply it
    sh("git checkout -- .", wt)
    rc, o = sh(f"git apply {out}/patch.diff", wt)
    if rc != 0:
        print("patch does not apply:", o); sys.exit(1)
    rc, diff = sh("git diff", wt)
    patch = diff
    ran.append("scratch worktree reset, agent's patch.diff applied")
    rc, o = sh("go build ./... && go test -vet=off -count=1 -timeout 25m ./... 2>&1 | tail -40", mod)
    ran.append("with change: go build ./... && go test -vet=off -count=1 ./...  -> " + ("ok" if rc == 0 and "FAIL" not in o else "FAILED"))
    if rc != 0 or "FAIL" in o:
        print("suite fails with the change:\n", o); sys.exit(1)
    demo = open(f"{out}/demo_test.go").read()
    tests = re.findall(r"^func (Test\w+)\(", demo, re.M)
    destabs = os.path.join(mod, dest)
    shutil.copy(f"{out}/demo_test.go", destabs)
    pkg = "./" + os.path.dirname(dest)
    runre = "^(" + "|".join(tests) + ")$"
    xf = os.environ.get("SEED_TESTFLAGS", "")
    try:
        rc1, o1 = sh(f"go test {xf} -vet=off -count=1 -timeout 10m -run '{runre}' {pkg} 2>&1 | tail -60", mod)
        failed_with = ("--- FAIL" in o1) or ("FAIL" in o1 and "ok " not in o1) or "panic:" in o1
        ran.append(f"with change: go test {xf} -run '{runre}' {pkg} -> " + ("FAIL (as required)" if failed_with else "passed (NOT a demonstration)"))
        rcr, orv = sh(f"git apply -R --exclude='*demo_test.go' - <<'EOF'\n{patch}\nEOF", wt)
        if rcr != 0:
            print("cannot revert:", orv); sys.exit(1)
        rc2, o2 = sh(f"go test {xf} -vet=off -count=1 -timeout 10m -run '{runre}' {pkg} 2>&1 | tail -30", mod)
        passed_without = rc2 == 0 and "FAIL" not in o2 and "ok " in o2
        ran.append(f"without change: same command -> " + ("ok (as required)" if passed_without else "FAILED"))
    finally:
        if os.path.exists(destabs):
            os.remove(destabs)
    print("\n".join(ran))
    if not failed_with:
        print("--- demo output with change:\n", o1); sys.exit(1)
    if not passed_without:
        print("--- demo output without change:\n", o2); sys.exit(1)
    sd = f"/verif/seeded/{pid}" + (f"-r{rnd}" if rnd else "")
    os.makedirs(sd, exist_ok=True)
    open(f"{sd}/patch.diff", "w").write(patch)
    shutil.copy(f"{out}/demo_test.go", f"{sd}/demo_test.go")
    if os.path.exists(f"{out}/README.md"):
        shutil.copy(f"{out}/README.md", f"{sd}/README.md")
    props = {json.loads(l)["id"]: json.loads(l) for l in open("/verif/properties.jsonl")}
    meta = {
        "property": pid,
        "property_title": props[pid].get("title", ""),
        "author": "fresh sub-agent given only the property text and a scratch worktree",
        "files_changed": re.findall(r"^\+\+\+ b/(.*)$", patch, re.M),
        "needs_to_manifest": needs,
        "demonstration": {"file": "demo_test.go", "copy_to": "luahelper-lsp/" + dest, "tests": tests},
        "confirmed": ran,
        "apply": f"git -C /repo apply {sd}/patch.diff ; undo: git -C /repo checkout -- .",
    }
    json.dump(meta, open(f"{sd}/meta.json", "w"), indent=1)
    print("kept:", sd)


main()
