#!/usr/bin/env python3
# Regenerates MANIFEST.json from the table below. Run after adding a property check.
import json
claimed = json.load(open('/verif/manifest_claims.json'))
props=[json.loads(l) for l in open('/verif/properties.jsonl')]
checks=[]; na=[]
for p in props:
    pid=p['id']
    if pid in claimed:
        c=claimed[pid]
        checks.append({
          "property_id": pid,
          "quick_cmd": f"./bin/vcheck {pid} --tier quick",
          "thorough_cmd": f"./bin/vcheck {pid} --tier thorough",
          "evidence_file": f"/verif/evidence/{pid}.json",
          "replay_cmd_template": f"./bin/vcheck {pid} --replay {{path}}",
          "engine": "rapid+lhexec",
          "level_claimed": {"category":"exploration","text":c["text"],"design_ref":c.get("design_ref","DESIGN.md §6 "+pid)},
          "level_note": c["note"],
          "technique": c["technique"],
        })
    else:
        na.append({"property_id":pid,"reason":"check not built yet in this round; planned in DESIGN.md §6 "+pid})
m={"version":1,
 "setup_cmd":"cd /verif && export GOFLAGS=-mod=mod GOPROXY=off GOSUMDB=off GOTOOLCHAIN=local && mkdir -p bin && go build -o bin/vcheck ./cmd/vcheck && ./bin/vcheck build",
 "hooks":{"guard":"verif","enable":"go build -tags verif (the executor /verif/exec/lhexec is built with the tag from /repo's working tree on every check)",
   "baseline_off_cmd":"cd /repo/luahelper-lsp && go test -vet=off -count=1 -timeout 25m ./...",
   "source_commits":["59581df","a435577"],"add_only":True},
 "engines":[{"name":"rapid+lhexec","path":"/verif/props","serves_properties":sorted(claimed.keys()),
   "kind_free_text":"pgregory.net/rapid v1.3.0 properties (generators, state machines, shrinking) run in 16 seeded shards by /verif/cmd/vcheck; each drives the real language server in executor child processes (/verif/exec/lhexec) and decides with an explicit oracle (reference model, differential, metamorphic relation or validity predicate)"}],
 "checks":checks,
 "not_applicable":na,
 "notes":"exit 0 held / 1 VIOLATION line / 2 inconclusive (build failure, timeout); known findings in /verif/known_findings.json; see DESIGN.md"}
json.dump(m,open('/verif/MANIFEST.json','w'),indent=1)
print(len(checks),"claimed",len(na),"not applicable")
